//@ props=C07,C08,C09,C12,C18
//! Lemmas (all proved, nothing assumed) that connect the 4-lane row form of the BLAKE2b compression function used by
//! src/blake2b/blake2b_simd.rs with RFC 7693 (spec_blake2b.rs): the working vector v[0..15] is held as four rows
//! a = v[0..3], b = v[4..7], c = v[8..11], d = v[12..15]; a "column step" applies G to the four columns lane-wise,
//! a "diagonal step" rotates the lanes of a, c, d (b stays) so that the diagonals become columns, applies G lane-wise
//! and rotates back.
use vstd::prelude::*;
use crate::verif_spec::*;
use crate::spec_blake2b::*;

verus! {

// ---- word level ---------------------------------------------------------------------------------------------------
/// half of G (RFC 7693 3.1): the first four assignments with rotations (r1, r2) = (32, 24), the last four with (16, 63)
pub open spec fn b2s_hw(a: u64, b: u64, c: u64, d: u64, x: u64, r1: u64, r2: u64) -> (u64, u64, u64, u64) {
    let a1 = b2_add64(a, b2_add64(b, x));
    let d1 = spec_rotr64(d ^ a1, r1);
    let c1 = b2_add64(c, d1);
    let b1 = spec_rotr64(b ^ c1, r2);
    (a1, b1, c1, d1)
}

/// G on four words
pub open spec fn b2s_gw(a: u64, b: u64, c: u64, d: u64, x: u64, y: u64) -> (u64, u64, u64, u64) {
    let h = b2s_hw(a, b, c, d, x, 32, 24);
    b2s_hw(h.0, h.1, h.2, h.3, y, 16, 63)
}

/// (a + b) + m == a + (b + m) modulo 2^64 (the code adds left to right, RFC 7693 writes v[a] + v[b] + x)
pub proof fn lemma_b2s_add_assoc(a: u64, b: u64, m: u64)
    ensures
        b2_add64(b2_add64(a, b), m) == b2_add64(a, b2_add64(b, m)),
{
}

pub proof fn lemma_b2s_xor_comm(x: u64, y: u64)
    ensures
        x ^ y == y ^ x,
{
    assert(x ^ y == y ^ x) by (bit_vector);
}

/// (x ^ y) ^ h == (h ^ x) ^ y: the code computes (v[i] ^ v[i+8]) ^ h[i], RFC 7693 h[i] ^ v[i] ^ v[i+8]
pub proof fn lemma_b2s_xor3(h: u64, x: u64, y: u64)
    ensures
        (x ^ y) ^ h == (h ^ x) ^ y,
{
    assert((x ^ y) ^ h == (h ^ x) ^ y) by (bit_vector);
}

/// G of RFC 7693 touches exactly the four positions a, b, c, d
pub proof fn lemma_b2s_g_words(v: Seq<u64>, a: int, b: int, c: int, d: int, x: u64, y: u64)
    requires
        v.len() == 16,
        0 <= a < 16 && 0 <= b < 16 && 0 <= c < 16 && 0 <= d < 16,
        a != b && a != c && a != d && b != c && b != d && c != d,
    ensures
        blake2b_g(v, a, b, c, d, x, y) == ({
            let g = b2s_gw(v[a], v[b], v[c], v[d], x, y);
            v.update(a, g.0).update(b, g.1).update(c, g.2).update(d, g.3)
        }),
{
    let g = b2s_gw(v[a], v[b], v[c], v[d], x, y);
    assert(blake2b_g(v, a, b, c, d, x, y) =~= v.update(a, g.0).update(b, g.1).update(c, g.2).update(d, g.3));
}

// ---- row level ----------------------------------------------------------------------------------------------------
/// lane-wise rotate right of every word
pub open spec fn b2s_rotr(v: Seq<u64>, n: u64) -> Seq<u64> {
    Seq::new(v.len(), |i: int| spec_rotr64(v[i], n))
}

/// lane-wise half G on the rows (contract of the code's `g1` = (32, 24) and `g2` = (16, 63))
pub open spec fn b2s_g_half(a: Seq<u64>, b: Seq<u64>, c: Seq<u64>, d: Seq<u64>, m: Seq<u64>, r1: u64, r2: u64) -> (Seq<u64>, Seq<u64>, Seq<u64>, Seq<u64>) {
    (
        Seq::new(4, |i: int| b2s_hw(a[i], b[i], c[i], d[i], m[i], r1, r2).0),
        Seq::new(4, |i: int| b2s_hw(a[i], b[i], c[i], d[i], m[i], r1, r2).1),
        Seq::new(4, |i: int| b2s_hw(a[i], b[i], c[i], d[i], m[i], r1, r2).2),
        Seq::new(4, |i: int| b2s_hw(a[i], b[i], c[i], d[i], m[i], r1, r2).3),
    )
}

/// lanes rotated left by k (0 <= k < 4): lane i of the result is lane (i + k) mod 4
pub open spec fn b2s_rot_lanes(v: Seq<u64>, k: int) -> Seq<u64> {
    Seq::new(4, |i: int| v[if i + k >= 4 { i + k - 4 } else { i + k }])
}

/// column step: G on (a[i], b[i], c[i], d[i]) with (x[i], y[i]) in every lane
pub open spec fn b2s_cols(a: Seq<u64>, b: Seq<u64>, c: Seq<u64>, d: Seq<u64>, x: Seq<u64>, y: Seq<u64>) -> (Seq<u64>, Seq<u64>, Seq<u64>, Seq<u64>) {
    let h = b2s_g_half(a, b, c, d, x, 32, 24);
    b2s_g_half(h.0, h.1, h.2, h.3, y, 16, 63)
}

/// diagonal step: rotate a by 3, c by 1, d by 2 lanes (b stays), column step, rotate back
pub open spec fn b2s_diags(a: Seq<u64>, b: Seq<u64>, c: Seq<u64>, d: Seq<u64>, x: Seq<u64>, y: Seq<u64>) -> (Seq<u64>, Seq<u64>, Seq<u64>, Seq<u64>) {
    let g = b2s_cols(b2s_rot_lanes(a, 3), b, b2s_rot_lanes(c, 1), b2s_rot_lanes(d, 2), x, y);
    (b2s_rot_lanes(g.0, 1), g.1, b2s_rot_lanes(g.2, 3), b2s_rot_lanes(g.3, 2))
}

/// one round of the code: column step with (x1, y1), diagonal step with (x2, y2)
pub open spec fn b2s_round(a: Seq<u64>, b: Seq<u64>, c: Seq<u64>, d: Seq<u64>, x1: Seq<u64>, y1: Seq<u64>, x2: Seq<u64>, y2: Seq<u64>) -> (Seq<u64>, Seq<u64>, Seq<u64>, Seq<u64>) {
    let g = b2s_cols(a, b, c, d, x1, y1);
    b2s_diags(g.0, g.1, g.2, g.3, x2, y2)
}

/// the four message vectors of round r (RFC 7693 3.2 with s = SIGMA[r mod 10]):
///   k = 0 / 1: the x / y operands m[s[2i]] / m[s[2i+1]] of the column G's i = 0..3
///   k = 2 / 3: the x / y operands of the diagonal G's; lane j holds the diagonal through v[4 + j], i.e. G number (j + 3) mod 4
pub open spec fn b2s_msg_vec(m: Seq<u64>, r: int, k: int) -> Seq<u64> {
    if k == 0 {
        seq![m[blake2b_sigma(r, 0)], m[blake2b_sigma(r, 2)], m[blake2b_sigma(r, 4)], m[blake2b_sigma(r, 6)]]
    } else if k == 1 {
        seq![m[blake2b_sigma(r, 1)], m[blake2b_sigma(r, 3)], m[blake2b_sigma(r, 5)], m[blake2b_sigma(r, 7)]]
    } else if k == 2 {
        seq![m[blake2b_sigma(r, 14)], m[blake2b_sigma(r, 8)], m[blake2b_sigma(r, 10)], m[blake2b_sigma(r, 12)]]
    } else {
        seq![m[blake2b_sigma(r, 15)], m[blake2b_sigma(r, 9)], m[blake2b_sigma(r, 11)], m[blake2b_sigma(r, 13)]]
    }
}

/// the code's message row k: words 2k, 2k+1 twice (`loadm`)
pub open spec fn b2s_mrow(m: Seq<u64>, k: int) -> Seq<u64> {
    seq![m[2 * k], m[2 * k + 1], m[2 * k], m[2 * k + 1]]
}

/// the column step is the first four G applications of a round
pub proof fn lemma_b2s_columns(a: Seq<u64>, b: Seq<u64>, c: Seq<u64>, d: Seq<u64>, x: Seq<u64>, y: Seq<u64>)
    requires
        a.len() == 4 && b.len() == 4 && c.len() == 4 && d.len() == 4 && x.len() == 4 && y.len() == 4,
    ensures
        ({
            let g = b2s_cols(a, b, c, d, x, y);
            &&& g.0.len() == 4 && g.1.len() == 4 && g.2.len() == 4 && g.3.len() == 4
            &&& g.0 + g.1 + g.2 + g.3 == ({
                let v = a + b + c + d;
                let v = blake2b_g(v, 0, 4, 8, 12, x[0], y[0]);
                let v = blake2b_g(v, 1, 5, 9, 13, x[1], y[1]);
                let v = blake2b_g(v, 2, 6, 10, 14, x[2], y[2]);
                blake2b_g(v, 3, 7, 11, 15, x[3], y[3])
            })
        }),
{
    hide(blake2b_g);
    let v0 = a + b + c + d;
    lemma_b2s_g_words(v0, 0, 4, 8, 12, x[0], y[0]);
    let v1 = blake2b_g(v0, 0, 4, 8, 12, x[0], y[0]);
    lemma_b2s_g_words(v1, 1, 5, 9, 13, x[1], y[1]);
    let v2 = blake2b_g(v1, 1, 5, 9, 13, x[1], y[1]);
    lemma_b2s_g_words(v2, 2, 6, 10, 14, x[2], y[2]);
    let v3 = blake2b_g(v2, 2, 6, 10, 14, x[2], y[2]);
    lemma_b2s_g_words(v3, 3, 7, 11, 15, x[3], y[3]);
    let v4 = blake2b_g(v3, 3, 7, 11, 15, x[3], y[3]);
    let g = b2s_cols(a, b, c, d, x, y);
    assert(g.0 + g.1 + g.2 + g.3 =~= v4);
}

/// the column step, lane by lane
pub proof fn lemma_b2s_cols_lanes(a: Seq<u64>, b: Seq<u64>, c: Seq<u64>, d: Seq<u64>, x: Seq<u64>, y: Seq<u64>)
    ensures
        ({
            let g = b2s_cols(a, b, c, d, x, y);
            &&& g.0.len() == 4 && g.1.len() == 4 && g.2.len() == 4 && g.3.len() == 4
            &&& forall|j: int| 0 <= j < 4 ==> {
                    let w = #[trigger] b2s_gw(a[j], b[j], c[j], d[j], x[j], y[j]);
                    g.0[j] == w.0 && g.1[j] == w.1 && g.2[j] == w.2 && g.3[j] == w.3
                }
        }),
{
}

/// the four diagonal G applications of RFC 7693, element by element
pub proof fn lemma_b2s_diag_rfc(v: Seq<u64>, x: Seq<u64>, y: Seq<u64>)
    requires
        v.len() == 16 && x.len() == 4 && y.len() == 4,
    ensures
        ({
            let w0 = b2s_gw(v[3], v[4], v[9], v[14], x[0], y[0]);
            let w1 = b2s_gw(v[0], v[5], v[10], v[15], x[1], y[1]);
            let w2 = b2s_gw(v[1], v[6], v[11], v[12], x[2], y[2]);
            let w3 = b2s_gw(v[2], v[7], v[8], v[13], x[3], y[3]);
            seq![w1.0, w2.0, w3.0, w0.0, w0.1, w1.1, w2.1, w3.1, w3.2, w0.2, w1.2, w2.2, w2.3, w3.3, w0.3, w1.3]
        }) == ({
            let v = blake2b_g(v, 0, 5, 10, 15, x[1], y[1]);
            let v = blake2b_g(v, 1, 6, 11, 12, x[2], y[2]);
            let v = blake2b_g(v, 2, 7, 8, 13, x[3], y[3]);
            blake2b_g(v, 3, 4, 9, 14, x[0], y[0])
        }),
{
    hide(blake2b_g);
    hide(b2s_gw);
    let v0 = v;
    lemma_b2s_g_words(v0, 0, 5, 10, 15, x[1], y[1]);
    let v1 = blake2b_g(v0, 0, 5, 10, 15, x[1], y[1]);
    lemma_b2s_g_words(v1, 1, 6, 11, 12, x[2], y[2]);
    let v2 = blake2b_g(v1, 1, 6, 11, 12, x[2], y[2]);
    lemma_b2s_g_words(v2, 2, 7, 8, 13, x[3], y[3]);
    let v3 = blake2b_g(v2, 2, 7, 8, 13, x[3], y[3]);
    lemma_b2s_g_words(v3, 3, 4, 9, 14, x[0], y[0]);
    let v4 = blake2b_g(v3, 3, 4, 9, 14, x[0], y[0]);
    let w0 = b2s_gw(v[3], v[4], v[9], v[14], x[0], y[0]);
    let w1 = b2s_gw(v[0], v[5], v[10], v[15], x[1], y[1]);
    let w2 = b2s_gw(v[1], v[6], v[11], v[12], x[2], y[2]);
    let w3 = b2s_gw(v[2], v[7], v[8], v[13], x[3], y[3]);
    assert(seq![w1.0, w2.0, w3.0, w0.0, w0.1, w1.1, w2.1, w3.1, w3.2, w0.2, w1.2, w2.2, w2.3, w3.3, w0.3, w1.3] =~= v4);
}

/// the diagonal step of the code (lane rotation, lane-wise G, rotation back), element by element
pub proof fn lemma_b2s_diag_rows(a: Seq<u64>, b: Seq<u64>, c: Seq<u64>, d: Seq<u64>, x: Seq<u64>, y: Seq<u64>)
    requires
        a.len() == 4 && b.len() == 4 && c.len() == 4 && d.len() == 4 && x.len() == 4 && y.len() == 4,
    ensures
        ({
            let g = b2s_diags(a, b, c, d, x, y);
            let w0 = b2s_gw(a[3], b[0], c[1], d[2], x[0], y[0]);
            let w1 = b2s_gw(a[0], b[1], c[2], d[3], x[1], y[1]);
            let w2 = b2s_gw(a[1], b[2], c[3], d[0], x[2], y[2]);
            let w3 = b2s_gw(a[2], b[3], c[0], d[1], x[3], y[3]);
            &&& g.0 == seq![w1.0, w2.0, w3.0, w0.0]
            &&& g.1 == seq![w0.1, w1.1, w2.1, w3.1]
            &&& g.2 == seq![w3.2, w0.2, w1.2, w2.2]
            &&& g.3 == seq![w2.3, w3.3, w0.3, w1.3]
        }),
{
    hide(b2s_cols);
    hide(b2s_gw);
    let pa = b2s_rot_lanes(a, 3);
    let pc = b2s_rot_lanes(c, 1);
    let pd = b2s_rot_lanes(d, 2);
    lemma_b2s_cols_lanes(pa, b, pc, pd, x, y);
    let h = b2s_cols(pa, b, pc, pd, x, y);
    let w0 = b2s_gw(pa[0], b[0], pc[0], pd[0], x[0], y[0]);
    let w1 = b2s_gw(pa[1], b[1], pc[1], pd[1], x[1], y[1]);
    let w2 = b2s_gw(pa[2], b[2], pc[2], pd[2], x[2], y[2]);
    let w3 = b2s_gw(pa[3], b[3], pc[3], pd[3], x[3], y[3]);
    let g = b2s_diags(a, b, c, d, x, y);
    assert(g.0 =~= seq![w1.0, w2.0, w3.0, w0.0]);
    assert(g.1 =~= seq![w0.1, w1.1, w2.1, w3.1]);
    assert(g.2 =~= seq![w3.2, w0.2, w1.2, w2.2]);
    assert(g.3 =~= seq![w2.3, w3.3, w0.3, w1.3]);
}

/// the diagonal step is the last four G applications of a round; x / y hold the operands of G number 7, 4, 5, 6
pub proof fn lemma_b2s_diagonals(a: Seq<u64>, b: Seq<u64>, c: Seq<u64>, d: Seq<u64>, x: Seq<u64>, y: Seq<u64>)
    requires
        a.len() == 4 && b.len() == 4 && c.len() == 4 && d.len() == 4 && x.len() == 4 && y.len() == 4,
    ensures
        ({
            let g = b2s_diags(a, b, c, d, x, y);
            &&& g.0.len() == 4 && g.1.len() == 4 && g.2.len() == 4 && g.3.len() == 4
            &&& g.0 + g.1 + g.2 + g.3 == ({
                let v = a + b + c + d;
                let v = blake2b_g(v, 0, 5, 10, 15, x[1], y[1]);
                let v = blake2b_g(v, 1, 6, 11, 12, x[2], y[2]);
                let v = blake2b_g(v, 2, 7, 8, 13, x[3], y[3]);
                blake2b_g(v, 3, 4, 9, 14, x[0], y[0])
            })
        }),
{
    hide(blake2b_g);
    hide(b2s_gw);
    hide(b2s_diags);
    let v = a + b + c + d;
    lemma_b2s_diag_rfc(v, x, y);
    lemma_b2s_diag_rows(a, b, c, d, x, y);
    let g = b2s_diags(a, b, c, d, x, y);
    let w0 = b2s_gw(a[3], b[0], c[1], d[2], x[0], y[0]);
    let w1 = b2s_gw(a[0], b[1], c[2], d[3], x[1], y[1]);
    let w2 = b2s_gw(a[1], b[2], c[3], d[0], x[2], y[2]);
    let w3 = b2s_gw(a[2], b[3], c[0], d[1], x[3], y[3]);
    assert(g.0 + g.1 + g.2 + g.3 =~= seq![w1.0, w2.0, w3.0, w0.0, w0.1, w1.1, w2.1, w3.1, w3.2, w0.2, w1.2, w2.2, w2.3, w3.3, w0.3, w1.3]);
}

/// one round of the code is one round of RFC 7693
pub proof fn lemma_b2s_round(a: Seq<u64>, b: Seq<u64>, c: Seq<u64>, d: Seq<u64>, m: Seq<u64>, r: int)
    requires
        a.len() == 4 && b.len() == 4 && c.len() == 4 && d.len() == 4,
        m.len() == 16,
        0 <= r < 12,
    ensures
        ({
            let g = b2s_round(a, b, c, d, b2s_msg_vec(m, r, 0), b2s_msg_vec(m, r, 1), b2s_msg_vec(m, r, 2), b2s_msg_vec(m, r, 3));
            &&& g.0.len() == 4 && g.1.len() == 4 && g.2.len() == 4 && g.3.len() == 4
            &&& g.0 + g.1 + g.2 + g.3 == blake2b_round(a + b + c + d, m, r)
        }),
{
    hide(blake2b_g);
    hide(b2s_cols);
    hide(b2s_diags);
    let x1 = b2s_msg_vec(m, r, 0);
    let y1 = b2s_msg_vec(m, r, 1);
    let x2 = b2s_msg_vec(m, r, 2);
    let y2 = b2s_msg_vec(m, r, 3);
    lemma_b2s_columns(a, b, c, d, x1, y1);
    let g = b2s_cols(a, b, c, d, x1, y1);
    lemma_b2s_diagonals(g.0, g.1, g.2, g.3, x2, y2);
}

/// the sixteen message words of a block as the code loads them (`load_u64_le(&block[8 i .. 8 i + 8])`)
pub proof fn lemma_b2s_block_words(block: Seq<u8>, i: int)
    requires
        block.len() >= 128,
        0 <= i < 16,
    ensures
        block.subrange(8 * i, 8 * i + 8).subrange(0, 8) == block.subrange(0, 128).subrange(8 * i, 8 * i + 8),
        blake2b_msg_words(block.subrange(0, 128))[i] == le_nat(block.subrange(8 * i, 8 * i + 8).subrange(0, 8)) as u64,
{
    assert(block.subrange(8 * i, 8 * i + 8).subrange(0, 8) =~= block.subrange(0, 128).subrange(8 * i, 8 * i + 8));
}

} // verus!
