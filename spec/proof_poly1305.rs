//@ props=C01,C02,C03,C04,C07,C08,C17
//! Proof library for src/poly1305/poly1305_soft.rs (44/44/42-bit limb implementation of Poly1305).
//! Everything in this file is PROVED (no assume / admit / external_body). The std / derive shims used by the sidecar
//! are: shim_u64_to_le_bytes and <[T]>::fill (shared, spec/verif_extern.rs) and shim_poly1305_default /
//! shim_poly1305_zeroize (contracts/poly1305.vc, bottom block).
//! The RFC-level spec (poly_p, poly_r, poly_s, poly_acc, poly1305_spec) lives in spec_poly1305.rs; it is pinned by
//! the RFC 8439 known-answer test at the end of this file.
use vstd::prelude::*;
use crate::verif_spec::*;
use crate::spec_poly1305::*;

verus! {

// ------------------------------------------------------------------------------------------------
// limb arithmetic
// ------------------------------------------------------------------------------------------------
/// 2^44
pub open spec fn pl_c44() -> int {
    0x100000000000
}

/// 2^88
pub open spec fn pl_c88() -> int {
    0x100000000000int * 0x100000000000int
}

/// 2^42
pub open spec fn pl_c42() -> int {
    0x40000000000
}

/// 2^64
pub open spec fn pl_c64() -> int {
    0x1_0000_0000_0000_0000
}

/// 2^128
pub open spec fn pl_c128() -> int {
    0x1_0000_0000_0000_0000int * 0x1_0000_0000_0000_0000int
}

/// the RFC 8439 prime 2^130 - 5
pub open spec fn pl_p() -> int {
    0x100000000000int * 0x100000000000int * 0x40000000000int - 5
}

/// BRIDGE between this proof library and the RFC-level spec: `poly_p()` of spec_poly1305.rs is the prime 2^130 - 5.
/// Every fact about `poly_acc` / `poly1305_spec` flows through this lemma.
pub proof fn lemma_poly_p_is_rfc_prime()
    ensures
        poly_p() as int == pl_p(),
{
    assert(poly_p() as int == pl_p()) by (compute_only);
}

/// value of three limbs in radix 2^44
pub open spec fn pl_lv(a0: int, a1: int, a2: int) -> int {
    a0 + a1 * pl_c44() + a2 * pl_c88()
}

pub open spec fn pl_lv3(a: [u64; 3]) -> int {
    pl_lv(a[0] as int, a[1] as int, a[2] as int)
}

/// limb bounds of the clamped key r
pub open spec fn pl_wf_r(r0: u64, r1: u64, r2: u64) -> bool {
    r0 <= 0xffc0fffffff && r1 <= 0xfffffc0ffff && r2 <= 0x00ffffffc0f
}

/// limb bounds of the accumulator between blocks (h1 may carry one extra bit)
pub open spec fn pl_wf_h(h0: u64, h1: u64, h2: u64) -> bool {
    h0 <= 0xfffffffffff && h1 <= 0x1fffffffffff && h2 <= 0x3ffffffffff
}

pub proof fn lemma_pl_consts()
    ensures
        pl_c44() * pl_c44() == pl_c88(),
        pl_c42() * pl_c88() == pl_p() + 5,
        pl_c44() * pl_c88() == 4 * pl_p() + 20,
        pl_c88() * pl_c44() == 4 * pl_p() + 20,
        pl_c88() * pl_c88() == pl_c44() * (4 * pl_p() + 20),
        pl_c64() * pl_c64() == pl_c128(),
        4 * pl_c128() == pl_p() + 5,
        0x100000int * pl_c44() == pl_c64(),
        0x1000000int * pl_c64() == pl_c88(),
        0x10000000000int * pl_c88() == pl_c128(),
        pow256(8) == pl_c64(),
        pow256(16) == pl_c128(),
        pl_p() > 0,
{
    assert(pl_c44() * pl_c44() == pl_c88()) by (compute_only);
    assert(pl_c42() * pl_c88() == pl_p() + 5) by (compute_only);
    assert(pl_c44() * pl_c88() == 4 * pl_p() + 20) by (compute_only);
    assert(pl_c88() * pl_c44() == 4 * pl_p() + 20) by (compute_only);
    assert(pl_c88() * pl_c88() == pl_c44() * (4 * pl_p() + 20)) by (compute_only);
    assert(pl_c64() * pl_c64() == pl_c128()) by (compute_only);
    assert(4 * pl_c128() == pl_p() + 5) by (compute_only);
    assert(0x100000int * pl_c44() == pl_c64()) by (compute_only);
    assert(0x1000000int * pl_c64() == pl_c88()) by (compute_only);
    assert(0x10000000000int * pl_c88() == pl_c128()) by (compute_only);
    assert(pow256(8) == pl_c64()) by (compute_only);
    assert(pow256(16) == pl_c128()) by (compute_only);
    assert(pl_p() > 0) by (compute_only);
}

proof fn lemma_dist9(x: int, y: int, z: int, u: int, v: int, w: int)
    ensures
        (x + y + z) * (u + v + w) == x * u + x * v + x * w + y * u + y * v + y * w + z * u + z * v + z * w,
{
    assert((x + y + z) * (u + v + w) == x * (u + v + w) + y * (u + v + w) + z * (u + v + w)) by (nonlinear_arith);
    assert(x * (u + v + w) == x * u + x * v + x * w) by (nonlinear_arith);
    assert(y * (u + v + w) == y * u + y * v + y * w) by (nonlinear_arith);
    assert(z * (u + v + w) == z * u + z * v + z * w) by (nonlinear_arith);
}

proof fn lemma_pp(a: int, k1: int, b: int, k2: int)
    ensures
        (a * k1) * (b * k2) == (a * b) * (k1 * k2),
{
    assert((a * k1) * (b * k2) == (a * b) * (k1 * k2)) by (nonlinear_arith);
}

proof fn lemma_p1(a: int, b: int, k: int)
    ensures
        a * (b * k) == (a * b) * k,
        (a * k) * b == (a * b) * k,
{
    assert(a * (b * k) == (a * b) * k) by (nonlinear_arith);
    assert((a * k) * b == (a * b) * k) by (nonlinear_arith);
}

/// schoolbook product with the 20*r folding: 2^132 = 4p + 20
pub proof fn lemma_mul_fold(h0: int, h1: int, h2: int, r0: int, r1: int, r2: int)
    ensures
        pl_lv(h0, h1, h2) * pl_lv(r0, r1, r2) == pl_lv(
            h0 * r0 + h1 * (r2 * 20) + h2 * (r1 * 20),
            h0 * r1 + h1 * r0 + h2 * (r2 * 20),
            h0 * r2 + h1 * r1 + h2 * r0,
        ) + pl_p() * (4 * (h1 * r2) + 4 * (h2 * r1) + (4 * pl_c44()) * (h2 * r2)),
{
    let c = pl_c44();
    let cc = pl_c88();
    lemma_pl_consts();
    lemma_dist9(h0, h1 * c, h2 * cc, r0, r1 * c, r2 * cc);
    lemma_p1(h0, r1, c);
    lemma_p1(h0, r2, cc);
    lemma_p1(h1, r0, c);
    lemma_pp(h1, c, r1, c);
    lemma_pp(h1, c, r2, cc);
    lemma_p1(h2, r0, cc);
    lemma_pp(h2, cc, r1, c);
    lemma_pp(h2, cc, r2, cc);
    let a12 = h1 * r2;
    let a21 = h2 * r1;
    let a22 = h2 * r2;
    assert(h1 * (r2 * 20) == a12 * 20) by (nonlinear_arith)
        requires a12 == h1 * r2;
    assert(h2 * (r1 * 20) == a21 * 20) by (nonlinear_arith)
        requires a21 == h2 * r1;
    assert(h2 * (r2 * 20) == a22 * 20) by (nonlinear_arith)
        requires a22 == h2 * r2;
    assert(a12 * (c * cc) == a12 * 20 + pl_p() * (4 * a12)) by (nonlinear_arith)
        requires c * cc == 4 * pl_p() + 20;
    assert(a21 * (cc * c) == a21 * 20 + pl_p() * (4 * a21)) by (nonlinear_arith)
        requires cc * c == 4 * pl_p() + 20;
    assert(a22 * (cc * cc) == (a22 * 20) * c + pl_p() * ((4 * c) * a22)) by (nonlinear_arith)
        requires cc * cc == c * (4 * pl_p() + 20);
    assert(pl_p() * (4 * a12 + 4 * a21 + (4 * c) * a22) == pl_p() * (4 * a12) + pl_p() * (4 * a21) + pl_p() * ((4 * c)
        * a22)) by (nonlinear_arith);
    assert((h0 * r1 + h1 * r0 + a22 * 20) * c == (h0 * r1) * c + (h1 * r0) * c + (a22 * 20) * c) by (nonlinear_arith);
    assert((h0 * r2 + h1 * r1 + h2 * r0) * cc == (h0 * r2) * cc + (h1 * r1) * cc + (h2 * r0) * cc) by (nonlinear_arith);
}

pub proof fn lemma_lv_add(a0: int, a1: int, a2: int, b0: int, b1: int, b2: int)
    ensures
        pl_lv(a0 + b0, a1 + b1, a2 + b2) == pl_lv(a0, a1, a2) + pl_lv(b0, b1, b2),
{
    assert((a1 + b1) * pl_c44() == a1 * pl_c44() + b1 * pl_c44()) by (nonlinear_arith);
    assert((a2 + b2) * pl_c88() == a2 * pl_c88() + b2 * pl_c88()) by (nonlinear_arith);
}

pub proof fn lemma_mul_le(x: int, xb: int, y: int, yb: int)
    requires
        0 <= x <= xb,
        0 <= y <= yb,
    ensures
        0 <= x * y <= xb * yb,
{
    assert(0 <= x * y <= xb * yb) by (nonlinear_arith)
        requires
            0 <= x <= xb,
            0 <= y <= yb,
    ;
}

// ------------------------------------------------------------------------------------------------
// bit-level facts, stated once with triggers on the machine expressions that occur in the code
// ------------------------------------------------------------------------------------------------
/// masks and shifts by 44 / 42 on u64 are mod / div by 2^44 / 2^42
pub proof fn lemma_bits64()
    ensures
        forall|x: u64| #[trigger] (x & 0xfffffffffff) == x % 0x100000000000,
        forall|x: u64| #[trigger] (x & 0x3ffffffffff) == x % 0x40000000000,
        forall|x: u64| #[trigger] (x >> 44) == x / 0x100000000000,
        forall|x: u64| #[trigger] (x >> 42) == x / 0x40000000000,
{
    assert forall|x: u64| #[trigger] (x & 0xfffffffffff) == x % 0x100000000000 by {
        assert((x & 0xfffffffffff) == x % 0x100000000000) by (bit_vector);
    }
    assert forall|x: u64| #[trigger] (x & 0x3ffffffffff) == x % 0x40000000000 by {
        assert((x & 0x3ffffffffff) == x % 0x40000000000) by (bit_vector);
    }
    assert forall|x: u64| #[trigger] (x >> 44) == x / 0x100000000000 by {
        assert((x >> 44) == x / 0x100000000000) by (bit_vector);
    }
    assert forall|x: u64| #[trigger] (x >> 42) == x / 0x40000000000 by {
        assert((x >> 42) == x / 0x40000000000) by (bit_vector);
    }
}

/// the three 44/44/42-bit limbs cut out of two little-endian 64-bit words (+ the 2^128 bit)
pub proof fn lemma_split_t(t0: u64, t1: u64, hibit: u64)
    requires
        hibit == 0 || hibit == 0x10000000000,
    ensures
        pl_lv(
            (t0 & 0xfffffffffff) as int,
            (((t0 >> 44) | (t1 << 20)) & 0xfffffffffff) as int,
            (((t1 >> 24) & 0x3ffffffffff) | hibit) as int,
        ) == t0 as int + (t1 as int) * pl_c64() + (hibit as int) * pl_c88(),
        (t0 & 0xfffffffffff) <= 0xfffffffffff,
        (((t0 >> 44) | (t1 << 20)) & 0xfffffffffff) <= 0xfffffffffff,
        (((t1 >> 24) & 0x3ffffffffff) | hibit) <= 0x1ffffffffff,
        hibit == 0 ==> (((t1 >> 24) & 0x3ffffffffff) | hibit) <= 0xffffffffff,
{
    lemma_pl_consts();
    assert(t0 == (t0 & 0xfffffffffff) + (t0 >> 44) * 0x100000000000) by (bit_vector);
    assert((((t0 >> 44) | (t1 << 20)) & 0xfffffffffff) == (t0 >> 44) + (t1 & 0xffffff) * 0x100000) by (bit_vector);
    assert(t1 == (t1 & 0xffffff) + (t1 >> 24) * 0x1000000) by (bit_vector);
    assert((((t1 >> 24) & 0x3ffffffffff) | hibit) == (t1 >> 24) + hibit) by (bit_vector)
        requires
            hibit == 0 || hibit == 0x10000000000,
    ;
    assert((t1 >> 24) <= 0xffffffffff) by (bit_vector);
    assert((t0 & 0xfffffffffff) <= 0xfffffffffff) by (bit_vector);
    assert((((t0 >> 44) | (t1 << 20)) & 0xfffffffffff) <= 0xfffffffffff) by (bit_vector);
    let a = (t0 & 0xfffffffffff) as int;
    let b = (t0 >> 44) as int;
    let c = (t1 & 0xffffff) as int;
    let d = (t1 >> 24) as int;
    let hb = hibit as int;
    assert((b + c * 0x100000) * pl_c44() == b * pl_c44() + c * (0x100000 * pl_c44())) by (nonlinear_arith);
    assert((c + d * 0x1000000) * pl_c64() == c * pl_c64() + d * (0x1000000 * pl_c64())) by (nonlinear_arith);
    assert((d + hb) * pl_c88() == d * pl_c88() + hb * pl_c88()) by (nonlinear_arith);
}

// ------------------------------------------------------------------------------------------------
// one iteration of Poly1305::blocks
// ------------------------------------------------------------------------------------------------
/// bounds of the nine partial products of h*r (s_i = 20*r_i) after the message block was added to h
pub proof fn lemma_step_bounds(m0: int, m1: int, m2: int, r0: int, r1: int, r2: int)
    requires
        0 <= m0 <= 0x1ffffffffffe,
        0 <= m1 <= 0x2ffffffffffe,
        0 <= m2 <= 0x5fffffffffe,
        0 <= r0 <= 0xffc0fffffff,
        0 <= r1 <= 0xfffffc0ffff,
        0 <= r2 <= 0x00ffffffc0f,
    ensures
        0 <= m0 * r0 <= 0x2000_0000_0000_0000_0000_0000,
        0 <= m1 * (r2 * 20) <= 0x2000_0000_0000_0000_0000_0000,
        0 <= m2 * (r1 * 20) <= 0x2000_0000_0000_0000_0000_0000,
        0 <= m0 * r1 <= 0x2000_0000_0000_0000_0000_0000,
        0 <= m1 * r0 <= 0x2000_0000_0000_0000_0000_0000,
        0 <= m2 * (r2 * 20) <= 0x2000_0000_0000_0000_0000_0000,
        0 <= m0 * r2 <= 0x2000_0000_0000_0000_0000_0000,
        0 <= m1 * r1 <= 0x2000_0000_0000_0000_0000_0000,
        0 <= m2 * r0 <= 0x2000_0000_0000_0000_0000_0000,
{
    lemma_mul_le(m0, 0x1ffffffffffe, r0, 0xffc0fffffff);
    lemma_mul_le(m1, 0x2ffffffffffe, r2 * 20, 20int * 0x00ffffffc0f);
    lemma_mul_le(m2, 0x5fffffffffe, r1 * 20, 20int * 0xfffffc0ffff);
    lemma_mul_le(m0, 0x1ffffffffffe, r1, 0xfffffc0ffff);
    lemma_mul_le(m1, 0x2ffffffffffe, r0, 0xffc0fffffff);
    lemma_mul_le(m2, 0x5fffffffffe, r2 * 20, 20int * 0x00ffffffc0f);
    lemma_mul_le(m0, 0x1ffffffffffe, r2, 0x00ffffffc0f);
    lemma_mul_le(m1, 0x2ffffffffffe, r1, 0xfffffc0ffff);
    lemma_mul_le(m2, 0x5fffffffffe, r0, 0xffc0fffffff);
}

/// the partial carry propagation at the end of an iteration, as a function of the three 128-bit sums
pub open spec fn pl_carry(e0: int, e1: int, e2: int) -> (int, int, int) {
    let k0 = e0 / pl_c44();
    let a0 = e0 % pl_c44();
    let d1 = e1 + k0;
    let k1 = d1 / pl_c44();
    let a1 = d1 % pl_c44();
    let d2 = e2 + k1;
    let c2 = d2 / pl_c42();
    let a2 = d2 % pl_c42();
    let g = a0 + c2 * 5;
    let k3 = g / pl_c44();
    (g % pl_c44(), a1 + k3, a2)
}

/// the partial carry keeps the value modulo p
pub proof fn lemma_carry_value(e0: int, e1: int, e2: int)
    requires
        0 <= e0,
        0 <= e1,
        0 <= e2,
    ensures
        ({
            let f = pl_carry(e0, e1, e2);
            pl_lv(e0, e1, e2) == pl_lv(f.0, f.1, f.2) + pl_p() * ((e2 + (e1 + e0 / pl_c44()) / pl_c44()) / pl_c42())
        }),
{
    lemma_pl_consts();
    let k0 = e0 / pl_c44();
    let a0 = e0 % pl_c44();
    let d1 = e1 + k0;
    let k1 = d1 / pl_c44();
    let a1 = d1 % pl_c44();
    let d2 = e2 + k1;
    let c2 = d2 / pl_c42();
    let a2 = d2 % pl_c42();
    let g = a0 + c2 * 5;
    let k3 = g / pl_c44();
    let f0 = g % pl_c44();
    assert(e0 == a0 + k0 * pl_c44());
    assert(e1 + k0 == a1 + k1 * pl_c44());
    assert(e2 + k1 == a2 + c2 * pl_c42());
    assert(a0 + 5 * c2 == f0 + k3 * pl_c44());
    assert(k1 * pl_c44() * pl_c44() == k1 * pl_c88()) by (nonlinear_arith)
        requires
            pl_c44() * pl_c44() == pl_c88(),
    ;
    assert((c2 * pl_c42()) * pl_c88() == c2 * (pl_p() + 5)) by (nonlinear_arith)
        requires
            pl_c42() * pl_c88() == pl_p() + 5,
    ;
    assert((a1 + k1 * pl_c44()) * pl_c44() == a1 * pl_c44() + k1 * pl_c44() * pl_c44()) by (nonlinear_arith);
    assert((a2 + c2 * pl_c42()) * pl_c88() == a2 * pl_c88() + (c2 * pl_c42()) * pl_c88()) by (nonlinear_arith);
    assert((e1 + k0) * pl_c44() == e1 * pl_c44() + k0 * pl_c44()) by (nonlinear_arith);
    assert((e2 + k1) * pl_c88() == e2 * pl_c88() + k1 * pl_c88()) by (nonlinear_arith);
    assert((a1 + k3) * pl_c44() == a1 * pl_c44() + k3 * pl_c44()) by (nonlinear_arith);
    assert(c2 * (pl_p() + 5) == c2 * pl_p() + 5 * c2) by (nonlinear_arith);
    assert(pl_p() * c2 == c2 * pl_p()) by (nonlinear_arith);
}

/// h' = carry((h + block) * r folded)  ==>  h' = (h + block) * r  (mod p)
pub proof fn lemma_block_step(
    hv: int, blk: int, m0: int, m1: int, m2: int, r0: int, r1: int, r2: int, e0: int, e1: int, e2: int,
    f0: int, f1: int, f2: int,
)
    requires
        pl_lv(m0, m1, m2) == hv + blk,
        e0 == m0 * r0 + m1 * (r2 * 20) + m2 * (r1 * 20),
        e1 == m0 * r1 + m1 * r0 + m2 * (r2 * 20),
        e2 == m0 * r2 + m1 * r1 + m2 * r0,
        0 <= e0,
        0 <= e1,
        0 <= e2,
        (f0, f1, f2) == pl_carry(e0, e1, e2),
    ensures
        pl_lv(f0, f1, f2) % pl_p() == ((hv + blk) * pl_lv(r0, r1, r2)) % pl_p(),
{
    lemma_pl_consts();
    lemma_mul_fold(m0, m1, m2, r0, r1, r2);
    lemma_carry_value(e0, e1, e2);
    let kk = 4 * (m1 * r2) + 4 * (m2 * r1) + (4 * pl_c44()) * (m2 * r2);
    let c2 = (e2 + (e1 + e0 / pl_c44()) / pl_c44()) / pl_c42();
    let total = pl_lv(m0, m1, m2) * pl_lv(r0, r1, r2);
    assert(total == pl_lv(e0, e1, e2) + pl_p() * kk);
    assert(pl_p() * kk + pl_p() * c2 == pl_p() * (kk + c2)) by (nonlinear_arith);
    assert(total == pl_p() * (kk + c2) + pl_lv(f0, f1, f2));
    vstd::arithmetic::div_mod::lemma_mod_multiples_vanish(kk + c2, pl_lv(f0, f1, f2), pl_p());
}

// ------------------------------------------------------------------------------------------------
// block-wise accumulator and its relation to the RFC accumulator poly_acc
// ------------------------------------------------------------------------------------------------
/// accumulator after absorbing the complete 16-byte blocks of `msg`; every block gets `hib` added
/// (2^128 for message blocks, 0 for the already padded final block)
pub open spec fn pl_blocks_acc(r: int, acc: int, msg: Seq<u8>, hib: int) -> int
    decreases msg.len(),
{
    if msg.len() < 16 {
        acc
    } else {
        pl_blocks_acc(
            r,
            ((acc + le_nat(msg.subrange(0, 16)) + hib) * r) % pl_p(),
            msg.subrange(16, msg.len() as int),
            hib,
        )
    }
}

pub proof fn lemma_mod_step(a: int, b: int, r: int, p: int)
    requires
        p > 0,
    ensures
        (((a % p) + b) * r) % p == ((a + b) * r) % p,
{
    vstd::arithmetic::div_mod::lemma_add_mod_noop(a, b, p);
    vstd::arithmetic::div_mod::lemma_add_mod_noop(a % p, b, p);
    vstd::arithmetic::div_mod::lemma_mod_twice(a, p);
    assert(((a % p) + b) % p == (a + b) % p);
    vstd::arithmetic::div_mod::lemma_mul_mod_noop_left((a % p) + b, r, p);
    vstd::arithmetic::div_mod::lemma_mul_mod_noop_left(a + b, r, p);
}

/// loop step of `blocks`: peeling the block input[i..i+16] off the remaining input
pub proof fn lemma_blocks_acc_step(r: int, hv: int, hv2: int, input: Seq<u8>, i: int, m: Seq<u8>, t0: int, t1: int, hib: int)
    requires
        0 <= i,
        i + 16 <= input.len(),
        m == input.subrange(i, i + 16),
        t0 == le_nat(m.subrange(0, 8)),
        t1 == le_nat(m.subrange(8, 16)),
        hv2 % pl_p() == ((hv + (t0 + t1 * pl_c64() + hib)) * r) % pl_p(),
    ensures
        pl_blocks_acc(r, hv % pl_p(), input.subrange(i, input.len() as int), hib) == pl_blocks_acc(
            r,
            hv2 % pl_p(),
            input.subrange(i + 16, input.len() as int),
            hib,
        ),
{
    lemma_pl_consts();
    let rest = input.subrange(i, input.len() as int);
    assert(rest.subrange(0, 16) =~= m);
    assert(rest.subrange(16, rest.len() as int) =~= input.subrange(i + 16, input.len() as int));
    lemma_le_nat_split(m, 8);
    assert(pl_c64() * t1 == t1 * pl_c64()) by (nonlinear_arith);
    let blk = t0 + t1 * pl_c64() + hib;
    assert(le_nat(m) + hib == blk);
    lemma_mod_step(hv, blk, r, pl_p());
    assert((hv % pl_p()) + le_nat(m) + hib == (hv % pl_p()) + blk);
}

// ------------------------------------------------------------------------------------------------
// the RFC accumulator poly_acc: composition over block boundaries
// ------------------------------------------------------------------------------------------------
pub proof fn lemma_poly_acc_lt(r: nat, acc: nat, msg: Seq<u8>)
    requires
        acc < poly_p(),
    ensures
        poly_acc(r, acc, msg) < poly_p(),
    decreases msg.len(),
{
    lemma_poly_p_is_rfc_prime();
    lemma_pl_consts();
    if msg.len() != 0 {
        let n = if msg.len() < 16 { msg.len() as int } else { 16 };
        let blk = le_nat(msg.subrange(0, n)) + pow256(n as nat);
        lemma_poly_acc_lt(r, ((acc + blk) * r) % poly_p(), msg.subrange(n, msg.len() as int));
    }
}

/// absorbing a ++ b == absorbing a, then b, when a consists of whole blocks
pub proof fn lemma_poly_acc_concat(r: nat, acc: nat, a: Seq<u8>, b: Seq<u8>)
    requires
        a.len() % 16 == 0,
    ensures
        poly_acc(r, acc, a + b) == poly_acc(r, poly_acc(r, acc, a), b),
    decreases a.len(),
{
    if a.len() == 0 {
        assert(a + b =~= b);
    } else {
        let ab = a + b;
        assert(ab.subrange(0, 16) =~= a.subrange(0, 16));
        assert(ab.subrange(16, ab.len() as int) =~= a.subrange(16, a.len() as int) + b);
        let blk = le_nat(a.subrange(0, 16)) + pow256(16);
        lemma_poly_acc_concat(r, ((acc + blk) * r) % poly_p(), a.subrange(16, a.len() as int), b);
    }
}

/// on whole blocks the RFC accumulator is the block-wise accumulator with the 2^128 bit set in every block
pub proof fn lemma_poly_acc_blocks(r: nat, acc: nat, msg: Seq<u8>)
    requires
        msg.len() % 16 == 0,
    ensures
        poly_acc(r, acc, msg) as int == pl_blocks_acc(r as int, acc as int, msg, pl_c128()),
    decreases msg.len(),
{
    lemma_poly_p_is_rfc_prime();
    lemma_pl_consts();
    if msg.len() != 0 {
        let blk = le_nat(msg.subrange(0, 16)) + pow256(16);
        let acc2 = ((acc + blk) * r) % poly_p();
        lemma_poly_acc_blocks(r, acc2, msg.subrange(16, msg.len() as int));
        assert(acc2 as int == ((acc as int + le_nat(msg.subrange(0, 16)) + pl_c128()) * (r as int)) % pl_p());
    }
}

/// the already padded final block (message bytes, 0x01, zeros; no 2^128 bit) is the RFC's short last block
pub proof fn lemma_poly_acc_last(r: nat, acc: nat, tail: Seq<u8>, padded: Seq<u8>)
    requires
        0 < tail.len() < 16,
        padded.len() == 16,
        padded.subrange(0, tail.len() as int) == tail,
        padded[tail.len() as int] == 1,
        forall|i: int| tail.len() < i < 16 ==> padded[i] == 0,
    ensures
        poly_acc(r, acc, tail) as int == pl_blocks_acc(r as int, acc as int, padded, 0),
{
    lemma_poly_p_is_rfc_prime();
    lemma_pl_consts();
    let n = tail.len() as int;
    assert(tail.subrange(0, n) =~= tail);
    assert(tail.subrange(n, n).len() == 0);
    let blk = le_nat(tail) + pow256(n as nat);
    assert(poly_acc(r, acc, tail) == ((acc + blk) * r) % poly_p()) by {
        reveal_with_fuel(poly_acc, 2);
    }
    assert(padded.subrange(0, 16) =~= padded);
    assert(padded.subrange(16, 16).len() == 0);
    assert(pl_blocks_acc(r as int, acc as int, padded, 0) == ((acc as int + le_nat(padded) + 0) * (r as int)) % pl_p()) by {
        reveal_with_fuel(pl_blocks_acc, 2);
    }
    // le(padded) = le(tail) + 256^n * (1 + 256 * le(zeros))
    lemma_le_nat_split(padded, n);
    let hi = padded.subrange(n, 16);
    lemma_le_nat_split(hi, 1);
    let one = hi.subrange(0, 1);
    assert(one[0] == 1);
    assert(one.subrange(1, 1).len() == 0);
    assert(le_nat(one) == 1) by {
        reveal_with_fuel(le_nat, 2);
    }
    let z = hi.subrange(1, hi.len() as int);
    assert forall|i: int| 0 <= i < z.len() implies z[i] == 0 by {
        assert(z[i] == padded[n + 1 + i]);
    }
    lemma_le_nat_zeros(z);
    assert(pow256(1) == 256) by (compute_only);
    assert(le_nat(hi) == 1);
    assert(pow256(n as nat) * 1 == pow256(n as nat)) by (nonlinear_arith);
}

pub proof fn lemma_le_nat_zeros(z: Seq<u8>)
    requires
        forall|i: int| 0 <= i < z.len() ==> z[i] == 0,
    ensures
        le_nat(z) == 0,
    decreases z.len(),
{
    if z.len() != 0 {
        let t = z.subrange(1, z.len() as int);
        assert forall|i: int| 0 <= i < t.len() implies t[i] == 0 by {
            assert(t[i] == z[i + 1]);
        }
        lemma_le_nat_zeros(t);
    }
}

// ------------------------------------------------------------------------------------------------
// abstract state: (r, h mod p, buffered bytes) after absorbing the byte string `a`
// ------------------------------------------------------------------------------------------------
/// `hv` is the RFC accumulator over the complete blocks of `a`, `buf` holds the incomplete last block of `a`
pub open spec fn pl_rep(rv: nat, hv: int, buf: Seq<u8>, a: Seq<u8>) -> bool {
    let n = (a.len() / 16) * 16;
    &&& buf =~= a.subrange(n as int, a.len() as int)
    &&& hv == poly_acc(rv, 0, a.subrange(0, n as int))
}

pub proof fn lemma_rep_empty(rv: nat)
    ensures
        pl_rep(rv, 0, Seq::<u8>::empty(), Seq::<u8>::empty()),
{
    let a = Seq::<u8>::empty();
    assert(a.subrange(0, 0).len() == 0);
}

/// buffering x without completing a block
pub proof fn lemma_rep_extend(rv: nat, hv: int, buf: Seq<u8>, a: Seq<u8>, x: Seq<u8>)
    requires
        pl_rep(rv, hv, buf, a),
        buf.len() + x.len() < 16,
    ensures
        pl_rep(rv, hv, buf + x, a + x),
{
    let n = (a.len() / 16) * 16;
    let ax = a + x;
    assert(buf.len() == a.len() - n);
    assert((ax.len() / 16) * 16 == n);
    assert(ax.subrange(0, n as int) =~= a.subrange(0, n as int));
    assert(ax.subrange(n as int, ax.len() as int) =~= buf + x);
}

/// x completes the buffered block, which is absorbed
pub proof fn lemma_rep_flush(rv: nat, hv: int, buf: Seq<u8>, a: Seq<u8>, x: Seq<u8>)
    requires
        pl_rep(rv, hv, buf, a),
        buf.len() + x.len() == 16,
    ensures
        hv >= 0,
        pl_rep(rv, poly_acc(rv, hv as nat, buf + x) as int, Seq::<u8>::empty(), a + x),
{
    let n = (a.len() / 16) * 16;
    let ax = a + x;
    assert(buf.len() == a.len() - n);
    assert(ax.len() == n + 16);
    assert((ax.len() / 16) * 16 == n + 16);
    assert(ax.subrange(0, (n + 16) as int) =~= a.subrange(0, n as int) + (buf + x));
    assert(ax.subrange((n + 16) as int, ax.len() as int) =~= Seq::<u8>::empty());
    lemma_poly_acc_concat(rv, 0, a.subrange(0, n as int), buf + x);
}

/// whole blocks absorbed while nothing is buffered
pub proof fn lemma_rep_blocks(rv: nat, hv: int, a: Seq<u8>, x: Seq<u8>)
    requires
        pl_rep(rv, hv, Seq::<u8>::empty(), a),
        x.len() % 16 == 0,
    ensures
        hv >= 0,
        pl_rep(rv, poly_acc(rv, hv as nat, x) as int, Seq::<u8>::empty(), a + x),
{
    let n = (a.len() / 16) * 16;
    let ax = a + x;
    assert(a.len() == n);
    assert((ax.len() / 16) * 16 == ax.len());
    assert(a.subrange(0, n as int) =~= a);
    assert(ax.subrange(0, ax.len() as int) =~= a + x);
    assert(ax.subrange(ax.len() as int, ax.len() as int) =~= Seq::<u8>::empty());
    lemma_poly_acc_concat(rv, 0, a, x);
}

// ------------------------------------------------------------------------------------------------
// Poly1305::new: the clamped r in 44/44/42-bit limbs
// ------------------------------------------------------------------------------------------------
pub proof fn lemma_new_r(key: Seq<u8>, t0: u64, t1: u64)
    requires
        key.len() >= 16,
        t0 as nat == le_nat(key.subrange(0, 8)),
        t1 as nat == le_nat(key.subrange(8, 16)),
    ensures
        pl_lv(
            (t0 & 0xffc0fffffff) as int,
            (((t0 >> 44) | (t1 << 20)) & 0xfffffc0ffff) as int,
            ((t1 >> 24) & 0x00ffffffc0f) as int,
        ) == poly_r(key),
        pl_wf_r(t0 & 0xffc0fffffff, ((t0 >> 44) | (t1 << 20)) & 0xfffffc0ffff, (t1 >> 24) & 0x00ffffffc0f),
{
    lemma_pl_consts();
    let k16 = key.subrange(0, 16);
    lemma_le_nat_split(k16, 8);
    assert(k16.subrange(0, 8) =~= key.subrange(0, 8));
    assert(k16.subrange(8, 16) =~= key.subrange(8, 16));
    lemma_le_nat_bound(k16);
    let x: u128 = le_nat(k16) as u128;
    assert(pl_c64() * (t1 as int) == (t1 as int) * pl_c64()) by (nonlinear_arith);
    assert(x as int == t0 as int + (t1 as int) * pl_c64());
    let r0 = t0 & 0xffc0fffffff;
    let r1 = ((t0 >> 44) | (t1 << 20)) & 0xfffffc0ffff;
    let r2 = (t1 >> 24) & 0x00ffffffc0f;
    assert(x == (t0 as u128) + (t1 as u128) * 0x1_0000_0000_0000_0000u128);
    assert((x & 0x0ffffffc_0ffffffc_0ffffffc_0fffffffu128) == (r0 as u128) + (r1 as u128) * 0x100000000000u128 + (r2 as u128)
        * 0x1_0000_0000_0000_0000_0000_00u128 && r0 <= 0xffc0fffffff && r1 <= 0xfffffc0ffff && r2 <= 0x00ffffffc0f) by (bit_vector)
        requires
            x == (t0 as u128) + (t1 as u128) * 0x1_0000_0000_0000_0000u128,
            r0 == t0 & 0xffc0fffffff,
            r1 == ((t0 >> 44) | (t1 << 20)) & 0xfffffc0ffff,
            r2 == (t1 >> 24) & 0x00ffffffc0f,
    ;
    assert(0x1_0000_0000_0000_0000_0000_00int == pl_c88()) by (compute_only);
}

// ------------------------------------------------------------------------------------------------
// Poly1305::finalize: full carry, conditional subtraction of p, addition of s, serialisation
// ------------------------------------------------------------------------------------------------
/// limb value with literal radix constants (linear arithmetic for the SMT solver)
pub proof fn lemma_lv_lit(a0: int, a1: int, a2: int)
    ensures
        pl_lv(a0, a1, a2) == a0 + a1 * 0x100000000000 + a2 * 0x10000000000000000000000,
{
    assert(pl_c88() == 0x10000000000000000000000int) by (compute_only);
}

pub proof fn lemma_p_lit()
    ensures
        pl_p() == 0x4_0000_0000_0000_0000_0000_0000_0000_0000int - 5,
        pl_c128() == 0x1_0000_0000_0000_0000_0000_0000_0000_0000int,
{
    assert(pl_p() == 0x4_0000_0000_0000_0000_0000_0000_0000_0000int - 5) by (compute_only);
    assert(pl_c128() == 0x1_0000_0000_0000_0000_0000_0000_0000_0000int) by (compute_only);
}

/// one carry pass h1 -> h2 -> (*5) h0 -> h1, as in `finalize`
pub open spec fn pl_carry_pass(h0: int, h1: int, h2: int) -> (int, int, int) {
    let c1 = h1 / pl_c44();
    let a1 = h1 % pl_c44();
    let y2 = h2 + c1;
    let c2 = y2 / pl_c42();
    let a2 = y2 % pl_c42();
    let y0 = h0 + c2 * 5;
    let c3 = y0 / pl_c44();
    let a0 = y0 % pl_c44();
    (a0, a1 + c3, a2)
}

pub proof fn lemma_carry_pass(h0: int, h1: int, h2: int)
    requires
        0 <= h0,
        0 <= h1,
        0 <= h2,
    ensures
        ({
            let f = pl_carry_pass(h0, h1, h2);
            pl_lv(h0, h1, h2) % pl_p() == pl_lv(f.0, f.1, f.2) % pl_p()
        }),
{
    lemma_p_lit();
    let f = pl_carry_pass(h0, h1, h2);
    let c2 = (h2 + h1 / pl_c44()) / pl_c42();
    lemma_lv_lit(h0, h1, h2);
    lemma_lv_lit(f.0, f.1, f.2);
    let plit = 0x4_0000_0000_0000_0000_0000_0000_0000_0000int - 5;
    assert(pl_lv(h0, h1, h2) == pl_lv(f.0, f.1, f.2) + c2 * plit);
    assert(pl_p() * c2 == c2 * plit) by (nonlinear_arith)
        requires
            pl_p() == plit,
    ;
    vstd::arithmetic::div_mod::lemma_mod_multiples_vanish(c2, pl_lv(f.0, f.1, f.2), pl_p());
}

/// two carry passes bring every limb into canonical range and keep the value modulo p
pub proof fn lemma_full_carry(h0: int, h1: int, h2: int)
    requires
        0 <= h0 <= 0xfffffffffff,
        0 <= h1 <= 0x1fffffffffff,
        0 <= h2 <= 0x3ffffffffff,
    ensures
        ({
            let e = pl_carry_pass(h0, h1, h2);
            let f = pl_carry_pass(e.0, e.1, e.2);
            &&& 0 <= f.0 <= 0xfffffffffff
            &&& 0 <= f.1 <= 0xfffffffffff
            &&& 0 <= f.2 <= 0x3ffffffffff
            &&& pl_lv(f.0, f.1, f.2) % pl_p() == pl_lv(h0, h1, h2) % pl_p()
        }),
{
    let e = pl_carry_pass(h0, h1, h2);
    lemma_carry_pass(h0, h1, h2);
    lemma_carry_pass(e.0, e.1, e.2);
}

/// h + 5 - 2^130 limb-wise, selected iff it is non-negative
pub open spec fn pl_select(b0: int, b1: int, b2: int) -> (int, int, int) {
    let g0w = b0 + 5;
    let ca = g0w / pl_c44();
    let g0 = g0w % pl_c44();
    let g1w = b1 + ca;
    let cb = g1w / pl_c44();
    let g1 = g1w % pl_c44();
    let y = b2 + cb;
    if y >= pl_c42() {
        (g0, g1, y - pl_c42())
    } else {
        (b0, b1, b2)
    }
}

pub proof fn lemma_select(b0: int, b1: int, b2: int)
    requires
        0 <= b0 <= 0xfffffffffff,
        0 <= b1 <= 0xfffffffffff,
        0 <= b2 <= 0x3ffffffffff,
    ensures
        ({
            let s = pl_select(b0, b1, b2);
            &&& 0 <= s.0 <= 0xfffffffffff
            &&& 0 <= s.1 <= 0xfffffffffff
            &&& 0 <= s.2 <= 0x3ffffffffff
            &&& pl_lv(s.0, s.1, s.2) == pl_lv(b0, b1, b2) % pl_p()
        }),
{
    lemma_p_lit();
    let s = pl_select(b0, b1, b2);
    lemma_lv_lit(b0, b1, b2);
    lemma_lv_lit(s.0, s.1, s.2);
    let hb = pl_lv(b0, b1, b2);
    let hs = pl_lv(s.0, s.1, s.2);
    let y = b2 + (b1 + (b0 + 5) / pl_c44()) / pl_c44();
    if y >= pl_c42() {
        assert(hs == hb - pl_p());
        assert(0 <= hs < pl_p());
        vstd::arithmetic::div_mod::lemma_fundamental_div_mod_converse(hb, pl_p(), 1, hs);
    } else {
        assert(hs == hb);
        assert(0 <= hb < pl_p());
        vstd::arithmetic::div_mod::lemma_small_mod(hb as nat, pl_p() as nat);
    }
}

/// adding the pad limb-wise with carries, truncating to 2^130, and packing into two 64-bit words = (h + s) mod 2^128
pub open spec fn pl_add_pack(s0: int, s1: int, s2: int, p0: int, p1: int, p2: int) -> (int, int) {
    let x0w = s0 + p0;
    let c = x0w / pl_c44();
    let x0 = x0w % pl_c44();
    let x1w = s1 + (p1 + c);
    let c2 = x1w / pl_c44();
    let x1 = x1w % pl_c44();
    let x2w = s2 + (p2 + c2);
    let x2 = x2w % pl_c42();
    (x0 + (x1 % 0x100000) * 0x100000000000, x1 / 0x100000 + (x2 % 0x10000000000) * 0x1000000)
}

pub proof fn lemma_add_pack(s0: int, s1: int, s2: int, p0: int, p1: int, p2: int)
    requires
        0 <= s0 <= 0xfffffffffff,
        0 <= s1 <= 0xfffffffffff,
        0 <= s2 <= 0x3ffffffffff,
        0 <= p0 <= 0xfffffffffff,
        0 <= p1 <= 0xfffffffffff,
        0 <= p2 <= 0xffffffffff,
    ensures
        ({
            let o = pl_add_pack(s0, s1, s2, p0, p1, p2);
            &&& 0 <= o.0 < pl_c64()
            &&& 0 <= o.1 < pl_c64()
            &&& o.0 + o.1 * pl_c64() == (pl_lv(s0, s1, s2) + pl_lv(p0, p1, p2)) % pl_c128()
        }),
{
    lemma_p_lit();
    lemma_lv_lit(s0, s1, s2);
    lemma_lv_lit(p0, p1, p2);
    let x0w = s0 + p0;
    let c = x0w / pl_c44();
    let x0 = x0w % pl_c44();
    let x1w = s1 + (p1 + c);
    let c2 = x1w / pl_c44();
    let x1 = x1w % pl_c44();
    let x2w = s2 + (p2 + c2);
    let x2 = x2w % pl_c42();
    let q = x2w / pl_c42();
    let x2l = x2 % 0x10000000000;
    let q2 = x2 / 0x10000000000;
    let o = pl_add_pack(s0, s1, s2, p0, p1, p2);
    let total = pl_lv(s0, s1, s2) + pl_lv(p0, p1, p2);
    let c128 = 0x1_0000_0000_0000_0000_0000_0000_0000_0000int;
    assert(total == x0 + x1 * 0x100000000000 + x2w * 0x10000000000000000000000);
    let low = o.0 + o.1 * 0x1_0000_0000_0000_0000;
    assert(low == x0 + x1 * 0x100000000000 + x2l * 0x10000000000000000000000);
    assert(total == low + (q2 + 4 * q) * c128);
    assert(0 <= low < c128);
    assert(total == (q2 + 4 * q) * pl_c128() + low) by (nonlinear_arith)
        requires
            total == low + (q2 + 4 * q) * c128,
            pl_c128() == c128,
    ;
    vstd::arithmetic::div_mod::lemma_fundamental_div_mod_converse(total, pl_c128(), q2 + 4 * q, low);
}

// ------------------------------------------------------------------------------------------------
// the same three phases on machine words, statement by statement as in `finalize` (helper specs taken from the
// code); the lemmas connect them to the arithmetic versions above, so that the body of `finalize` carries no
// div/mod reasoning at all
// ------------------------------------------------------------------------------------------------
/// crude bounds that make the u64 additions of `finalize` overflow-free
pub proof fn lemma_bits64_bounds()
    ensures
        forall|x: u64| #[trigger] (x & 0xfffffffffff) <= 0xfffffffffff,
        forall|x: u64| #[trigger] (x & 0x3ffffffffff) <= 0x3ffffffffff,
        forall|x: u64| #[trigger] (x >> 44) <= 0xfffff,
        forall|x: u64| #[trigger] (x >> 42) <= 0x3fffff,
{
    assert forall|x: u64| #[trigger] (x & 0xfffffffffff) <= 0xfffffffffff by {
        assert((x & 0xfffffffffff) <= 0xfffffffffff) by (bit_vector);
    }
    assert forall|x: u64| #[trigger] (x & 0x3ffffffffff) <= 0x3ffffffffff by {
        assert((x & 0x3ffffffffff) <= 0x3ffffffffff) by (bit_vector);
    }
    assert forall|x: u64| #[trigger] (x >> 44) <= 0xfffff by {
        assert((x >> 44) <= 0xfffff) by (bit_vector);
    }
    assert forall|x: u64| #[trigger] (x >> 42) <= 0x3fffff by {
        assert((x >> 42) <= 0x3fffff) by (bit_vector);
    }
}

pub open spec fn pl_carry_u(h0: u64, h1: u64, h2: u64) -> (u64, u64, u64) {
    let c = h1 >> 44;
    let h1 = h1 & 0xfffffffffff;
    let h2 = (h2 + c) as u64;
    let c = h2 >> 42;
    let h2 = h2 & 0x3ffffffffff;
    let h0 = (h0 + c * 5) as u64;
    let c = h0 >> 44;
    let h0 = h0 & 0xfffffffffff;
    let h1 = (h1 + c) as u64;
    (h0, h1, h2)
}

pub proof fn lemma_carry_u(h0: u64, h1: u64, h2: u64)
    requires
        h0 <= 0x1fffffffffff,
        h1 <= 0x1fffffffffff,
        h2 <= 0x3ffffffffff,
    ensures
        ({
            let f = pl_carry_u(h0, h1, h2);
            (f.0 as int, f.1 as int, f.2 as int) == pl_carry_pass(h0 as int, h1 as int, h2 as int)
        }),
{
    lemma_bits64();
}

pub open spec fn pl_select_u(h0: u64, h1: u64, h2: u64) -> (u64, u64, u64) {
    let g0 = h0.wrapping_add(5);
    let c = g0 >> 44;
    let g0 = g0 & 0xfffffffffff;
    let g1 = h1.wrapping_add(c);
    let c = g1 >> 44;
    let g1 = g1 & 0xfffffffffff;
    let g2 = (h2.wrapping_add(c)).wrapping_sub(1u64 << 42);
    let mask = (g2 >> 63).wrapping_sub(1);
    let g0 = g0 & mask;
    let g1 = g1 & mask;
    let g2 = g2 & mask;
    let mask = !mask;
    ((h0 & mask) | g0, (h1 & mask) | g1, (h2 & mask) | g2)
}

pub proof fn lemma_select_u(b0: u64, b1: u64, b2: u64)
    requires
        b0 <= 0xfffffffffff,
        b1 <= 0xfffffffffff,
        b2 <= 0x3ffffffffff,
    ensures
        ({
            let s = pl_select_u(b0, b1, b2);
            (s.0 as int, s.1 as int, s.2 as int) == pl_select(b0 as int, b1 as int, b2 as int)
        }),
{
    lemma_bits64();
    let g0w = b0.wrapping_add(5);
    let c = g0w >> 44;
    let g0 = g0w & 0xfffffffffff;
    let g1w = b1.wrapping_add(c);
    let c2 = g1w >> 44;
    let g1 = g1w & 0xfffffffffff;
    let y = b2.wrapping_add(c2);
    assert((1u64 << 42) == 0x40000000000) by (bit_vector);
    let g2 = y.wrapping_sub(1u64 << 42);
    assert(g2 >> 63 == (if g2 >= 0x8000_0000_0000_0000u64 { 1u64 } else { 0u64 })) by (bit_vector);
    let mask = (g2 >> 63).wrapping_sub(1);
    assert(y <= 0x40000000000);
    assert(mask == (if y >= 0x40000000000 { 0xffff_ffff_ffff_ffffu64 } else { 0u64 }));
    assert(y >= 0x40000000000 ==> g2 == 0);
    let nm = !mask;
    assert(((b0 & nm) | (g0 & mask)) == (if mask == 0 { b0 } else { g0 })) by (bit_vector)
        requires
            nm == !mask,
            mask == 0 || mask == 0xffff_ffff_ffff_ffffu64,
    ;
    assert(((b1 & nm) | (g1 & mask)) == (if mask == 0 { b1 } else { g1 })) by (bit_vector)
        requires
            nm == !mask,
            mask == 0 || mask == 0xffff_ffff_ffff_ffffu64,
    ;
    assert(((b2 & nm) | (g2 & mask)) == (if mask == 0 { b2 } else { g2 })) by (bit_vector)
        requires
            nm == !mask,
            mask == 0 || mask == 0xffff_ffff_ffff_ffffu64,
    ;
}

pub open spec fn pl_addpack_u(h0: u64, h1: u64, h2: u64, t0: u64, t1: u64) -> (u64, u64) {
    let h0 = h0.wrapping_add(t0 & 0xfffffffffff);
    let c = h0 >> 44;
    let h0 = h0 & 0xfffffffffff;
    let h1 = h1.wrapping_add((((t0 >> 44) | (t1 << 20)) & 0xfffffffffff).wrapping_add(c));
    let c = h1 >> 44;
    let h1 = h1 & 0xfffffffffff;
    let h2 = h2.wrapping_add(((t1 >> 24) & 0x3ffffffffff).wrapping_add(c));
    let h2 = h2 & 0x3ffffffffff;
    (h0 | (h1 << 44), (h1 >> 20) | (h2 << 24))
}

pub proof fn lemma_addpack_u(s0: u64, s1: u64, s2: u64, t0: u64, t1: u64)
    requires
        s0 <= 0xfffffffffff,
        s1 <= 0xfffffffffff,
        s2 <= 0x3ffffffffff,
    ensures
        ({
            let o = pl_addpack_u(s0, s1, s2, t0, t1);
            o.0 as int + (o.1 as int) * pl_c64() == (pl_lv(s0 as int, s1 as int, s2 as int) + (t0 as int + (t1 as int)
                * pl_c64())) % pl_c128()
        }),
{
    lemma_bits64();
    lemma_split_t(t0, t1, 0);
    let p0 = t0 & 0xfffffffffff;
    let p1 = ((t0 >> 44) | (t1 << 20)) & 0xfffffffffff;
    let p2 = (t1 >> 24) & 0x3ffffffffff;
    assert((p2 | 0) == p2) by (bit_vector);
    let x0w = s0.wrapping_add(p0);
    let c = x0w >> 44;
    let x0 = x0w & 0xfffffffffff;
    let x1w = s1.wrapping_add(p1.wrapping_add(c));
    let c2 = x1w >> 44;
    let x1 = x1w & 0xfffffffffff;
    let x2w = s2.wrapping_add(p2.wrapping_add(c2));
    let x2 = x2w & 0x3ffffffffff;
    let o0 = x0 | (x1 << 44);
    let o1 = (x1 >> 20) | (x2 << 24);
    assert(o0 == x0 + (x1 % 0x100000) * 0x100000000000) by (bit_vector)
        requires
            o0 == x0 | (x1 << 44),
            x0 <= 0xfffffffffff,
            x1 <= 0xfffffffffff,
    ;
    assert(o1 == x1 / 0x100000 + (x2 % 0x10000000000) * 0x1000000) by (bit_vector)
        requires
            o1 == (x1 >> 20) | (x2 << 24),
            x1 <= 0xfffffffffff,
            x2 <= 0x3ffffffffff,
    ;
    lemma_add_pack(s0 as int, s1 as int, s2 as int, p0 as int, p1 as int, p2 as int);
    assert((o0 as int, o1 as int) == pl_add_pack(s0 as int, s1 as int, s2 as int, p0 as int, p1 as int, p2 as int));
}

/// everything `finalize` does after the last block, on machine words
pub open spec fn pl_finalize_u(h0: u64, h1: u64, h2: u64, t0: u64, t1: u64) -> (u64, u64) {
    let e = pl_carry_u(h0, h1, h2);
    let b = pl_carry_u(e.0, e.1, e.2);
    let s = pl_select_u(b.0, b.1, b.2);
    pl_addpack_u(s.0, s.1, s.2, t0, t1)
}

pub proof fn lemma_finalize_u(h0: u64, h1: u64, h2: u64, t0: u64, t1: u64)
    requires
        pl_wf_h(h0, h1, h2),
    ensures
        ({
            let o = pl_finalize_u(h0, h1, h2, t0, t1);
            o.0 as int + (o.1 as int) * pl_c64() == (pl_lv(h0 as int, h1 as int, h2 as int) % pl_p() + (t0 as int + (
            t1 as int) * pl_c64())) % pl_c128()
        }),
{
    let e = pl_carry_u(h0, h1, h2);
    lemma_carry_u(h0, h1, h2);
    lemma_full_carry(h0 as int, h1 as int, h2 as int);
    let ei = pl_carry_pass(h0 as int, h1 as int, h2 as int);
    assert(0 <= ei.0 <= 0xfffffffffff && 0 <= ei.1 <= 0x100000000000 && 0 <= ei.2 <= 0x3ffffffffff);
    let b = pl_carry_u(e.0, e.1, e.2);
    lemma_carry_u(e.0, e.1, e.2);
    lemma_select_u(b.0, b.1, b.2);
    lemma_select(b.0 as int, b.1 as int, b.2 as int);
    let s = pl_select_u(b.0, b.1, b.2);
    lemma_addpack_u(s.0, s.1, s.2, t0, t1);
}

// ------------------------------------------------------------------------------------------------
// bytes
// ------------------------------------------------------------------------------------------------
/// nat_to_le is the inverse of le_nat
pub proof fn lemma_nat_to_le_of_le_nat(s: Seq<u8>)
    ensures
        nat_to_le(le_nat(s), s.len()) == s,
    decreases s.len(),
{
    if s.len() == 0 {
        assert(nat_to_le(le_nat(s), s.len()) =~= s);
    } else {
        let t = s.subrange(1, s.len() as int);
        lemma_nat_to_le_of_le_nat(t);
        let v = le_nat(s);
        assert(v == s[0] as nat + 256 * le_nat(t));
        assert(v % 256 == s[0] as nat);
        assert(v / 256 == le_nat(t));
        assert(seq![s[0]] + t =~= s);
    }
}

/// two little-endian 64-bit words written to out[0..8], out[8..16] are the 16-byte little-endian encoding
pub proof fn lemma_tag_bytes(out: Seq<u8>, o0: nat, o1: nat)
    requires
        out.len() == 16,
        le_nat(out.subrange(0, 8)) == o0,
        le_nat(out.subrange(8, 16)) == o1,
    ensures
        out == nat_to_le(o0 + o1 * (pl_c64() as nat), 16),
{
    lemma_pl_consts();
    lemma_le_nat_split(out, 8);
    lemma_nat_to_le_of_le_nat(out);
    assert(pow256(8) * o1 == o1 * (pl_c64() as nat)) by (nonlinear_arith)
        requires
            pow256(8) == pl_c64(),
    ;
}

/// poly_s(key) from the two pad words
pub proof fn lemma_pad_value(key: Seq<u8>, t0: nat, t1: nat)
    requires
        key.len() >= 32,
        t0 == le_nat(key.subrange(16, 24)),
        t1 == le_nat(key.subrange(24, 32)),
    ensures
        poly_s(key) == t0 + t1 * (pl_c64() as nat),
{
    lemma_pl_consts();
    let k = key.subrange(16, 32);
    lemma_le_nat_split(k, 8);
    assert(k.subrange(0, 8) =~= key.subrange(16, 24));
    assert(k.subrange(8, 16) =~= key.subrange(24, 32));
    assert(pow256(8) * t1 == t1 * (pl_c64() as nat)) by (nonlinear_arith)
        requires
            pow256(8) == pl_c64(),
    ;
}

/// whole-message accumulator from the abstract state
pub proof fn lemma_rep_total(rv: nat, hv: int, buf: Seq<u8>, a: Seq<u8>)
    requires
        pl_rep(rv, hv, buf, a),
    ensures
        hv >= 0,
        buf.len() < 16,
        poly_acc(rv, 0, a) == poly_acc(rv, hv as nat, buf),
{
    let n = (a.len() / 16) * 16;
    assert(a =~= a.subrange(0, n as int) + buf);
    lemma_poly_acc_concat(rv, 0, a.subrange(0, n as int), buf);
}

/// le_nat is the inverse of nat_to_le (modulo 256^n)
pub proof fn lemma_le_nat_of_nat_to_le(v: nat, n: nat)
    ensures
        nat_to_le(v, n).len() == n,
        le_nat(nat_to_le(v, n)) == v % pow256(n),
    decreases n,
{
    if n == 0 {
        assert(pow256(0) == 1);
    } else {
        let m = (n - 1) as nat;
        let t = nat_to_le(v / 256, m);
        let s = nat_to_le(v, n);
        lemma_le_nat_of_nat_to_le(v / 256, m);
        assert(s =~= seq![(v % 256) as u8] + t);
        assert(s.subrange(1, s.len() as int) =~= t);
        assert(s[0] == (v % 256) as u8);
        lemma_pow256_pos(m);
        vstd::arithmetic::div_mod::lemma_mod_breakdown(v as int, 256, pow256(m) as int);
        assert(pow256(n) == 256 * pow256(m));
    }
}

pub proof fn lemma_pow256_pos(k: nat)
    ensures
        pow256(k) > 0,
    decreases k,
{
    if k > 0 {
        lemma_pow256_pos((k - 1) as nat);
    }
}

/// the shared `shim_u64_to_le_bytes` (verif_extern.rs) returns nat_to_le(x, 8): its little-endian value is x
pub proof fn lemma_u64_bytes(x: u64, b: Seq<u8>)
    requires
        b == nat_to_le(x as nat, 8),
    ensures
        b.len() == 8,
        le_nat(b) == x as nat,
{
    lemma_le_nat_of_nat_to_le(x as nat, 8);
    lemma_pl_consts();
    vstd::arithmetic::div_mod::lemma_small_mod(x as nat, pow256(8));
}

// ------------------------------------------------------------------------------------------------
// known-answer test pinning the RFC-level spec functions of spec_poly1305.rs (RFC 8439 section 2.5.2:
// key 85d6be78..4149f51b, message "Cryptographic Forum Research Group", tag a8061dc1305136c6c22b8baf0c0127a9).
// (the seq! literals must be inline: `by (compute)` does not see through `let`)
// ------------------------------------------------------------------------------------------------
pub proof fn kat_poly1305_rfc8439_2_5_2() {
    assert(poly1305_spec(
        seq![
            0x85u8, 0xd6u8, 0xbeu8, 0x78u8, 0x57u8, 0x55u8, 0x6du8, 0x33u8, 0x7fu8, 0x44u8, 0x52u8, 0xfeu8,
            0x42u8, 0xd5u8, 0x06u8, 0xa8u8, 0x01u8, 0x03u8, 0x80u8, 0x8au8, 0xfbu8, 0x0du8, 0xb2u8, 0xfdu8,
            0x4au8, 0xbfu8, 0xf6u8, 0xafu8, 0x41u8, 0x49u8, 0xf5u8, 0x1bu8,
        ],
        seq![
            0x43u8, 0x72u8, 0x79u8, 0x70u8, 0x74u8, 0x6fu8, 0x67u8, 0x72u8, 0x61u8, 0x70u8, 0x68u8, 0x69u8,
            0x63u8, 0x20u8, 0x46u8, 0x6fu8, 0x72u8, 0x75u8, 0x6du8, 0x20u8, 0x52u8, 0x65u8, 0x73u8, 0x65u8,
            0x61u8, 0x72u8, 0x63u8, 0x68u8, 0x20u8, 0x47u8, 0x72u8, 0x6fu8, 0x75u8, 0x70u8,
        ],
    ) =~= seq![
            0xa8u8, 0x06u8, 0x1du8, 0xc1u8, 0x30u8, 0x51u8, 0x36u8, 0xc6u8, 0xc2u8, 0x2bu8, 0x8bu8, 0xafu8,
            0x0cu8, 0x01u8, 0x27u8, 0xa9u8,
        ]) by (compute);
}

} // verus!
