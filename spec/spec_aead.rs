//@ props=C01,C02,C04,C16,C17,C18
//! NaCl secretbox / box / sealed box as mathematical functions (XSalsa20 keystream uninterpreted).
use vstd::prelude::*;
use crate::verif_spec::*;
use crate::verif_extern::*;
use crate::spec_poly1305::*;
use crate::spec_hash::*;
use crate::spec_curve::*;

verus! {

pub open spec fn xs_block(k: Seq<u8>, n: Seq<u8>, pos: int, len: nat) -> Seq<u8> {
    Seq::new(len, |i: int| xsalsa20_stream(k, n, pos + i))
}

pub broadcast proof fn lemma_xs_xor_zeros(k: Seq<u8>, n: Seq<u8>, off: int, len: nat)
    ensures
        #[trigger] xs_xor(zeros(len), k, n, off) == xs_block(k, n, off, len),
{
    assert forall|i: int| 0 <= i < len implies #[trigger] xs_xor(zeros(len), k, n, off)[i] == xs_block(k, n, off, len)[i] by {
        let b = xsalsa20_stream(k, n, off + i);
        assert(0u8 ^ b == b) by (bit_vector);
    }
    assert(xs_xor(zeros(len), k, n, off) =~= xs_block(k, n, off, len));
}

/// one-time Poly1305 key = first 32 keystream bytes
pub open spec fn secretbox_otk(k: Seq<u8>, n: Seq<u8>) -> Seq<u8> {
    xs_block(k, n, 0, 32)
}

/// ciphertext body: message XOR keystream from byte 32 on
pub open spec fn secretbox_c(k: Seq<u8>, n: Seq<u8>, m: Seq<u8>) -> Seq<u8> {
    xs_xor(m, k, n, 32)
}

/// tag over the ciphertext body
pub open spec fn secretbox_mac(k: Seq<u8>, n: Seq<u8>, c: Seq<u8>) -> Seq<u8> {
    poly1305_spec(secretbox_otk(k, n), c)
}

/// libsodium combined layout: tag || body
pub open spec fn secretbox_easy(k: Seq<u8>, n: Seq<u8>, m: Seq<u8>) -> Seq<u8> {
    secretbox_mac(k, n, secretbox_c(k, n, m)) + secretbox_c(k, n, m)
}

pub proof fn lemma_xs_xor_involutive(m: Seq<u8>, k: Seq<u8>, n: Seq<u8>, off: int)
    ensures
        xs_xor(xs_xor(m, k, n, off), k, n, off) =~= m,
{
    assert forall|i: int| 0 <= i < m.len() implies #[trigger] xs_xor(xs_xor(m, k, n, off), k, n, off)[i] == m[i] by {
        let a = m[i];
        let b = xsalsa20_stream(k, n, off + i);
        assert((a ^ b) ^ b == a) by (bit_vector);
    }
}

} // verus!

verus! {

/// crypto_box precomputation: HSalsa20(X25519(sk, pk), 0^16)
pub open spec fn box_key(pk: Seq<u8>, sk: Seq<u8>) -> Seq<u8> {
    hsalsa20_spec(x25519(sk, pk), zeros(16), None)
}

/// sealed-box nonce: BLAKE2b-24(epk || rpk), unkeyed, no salt / personal
pub open spec fn seal_nonce(epk: Seq<u8>, rpk: Seq<u8>) -> Seq<u8> {
    blake2b_spec(24, Seq::<u8>::empty(), zeros(16), zeros(16), epk + rpk)
}

/// sealed box made with ephemeral secret key esk: epk || box(m, nonce, rpk, esk)
pub open spec fn sealed_box(m: Seq<u8>, rpk: Seq<u8>, esk: Seq<u8>) -> Seq<u8> {
    x25519_base(esk) + secretbox_easy(box_key(rpk, esk), seal_nonce(x25519_base(esk), rpk), m)
}

} // verus!
