//@ props=C09
//! Argon2 (RFC 9106) specification functions, written from the RFC text.
use vstd::prelude::*;
use crate::verif_spec::*;
use crate::spec_hash::*;

verus! {

/// R2 shim for `x.to_le_bytes()` on u32: the 4 little-endian bytes of x
#[verifier::external_body]
pub fn shim_u32_to_le_bytes(x: u32) -> (r: [u8; 4])
    ensures
        r@ == nat_to_le(x as nat, 4),
{
    x.to_le_bytes()
}

pub open spec fn fblamka_spec(a: u64, b: u64) -> u64 {
    ((a as nat + b as nat + 2 * ((a as nat % 0x1_0000_0000) * (b as nat % 0x1_0000_0000))) % 0x1_0000_0000_0000_0000) as u64
}

} // verus!
