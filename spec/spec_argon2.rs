//@ props=C09
//! Argon2 (RFC 9106) specification functions, written from the RFC text.
use vstd::prelude::*;
use crate::verif_spec::*;
use crate::spec_hash::*;

verus! {

/// R2 shim for `x.to_le_bytes()` on u32: the 4 little-endian bytes of x
#[verifier::external_body]
pub fn shim_u32_to_le_bytes(x: u32) -> (r: [u8; 4])
    ensures
        r@ == nat_to_le(x as nat, 4),
{
    x.to_le_bytes()
}

pub open spec fn le32(x: nat) -> Seq<u8> {
    nat_to_le(x, 4)
}

/// H^n(x): unkeyed BLAKE2b with an n-byte digest
pub open spec fn b2b(n: nat, x: Seq<u8>) -> Seq<u8> {
    blake2b_spec(n, Seq::<u8>::empty(), zeros(16), zeros(16), x)
}

// ------------------------------------------------------------------------------------------------
// RFC 9106 section 3.2 step 1: H_0
// ------------------------------------------------------------------------------------------------
/// H_0 = H^(64)(LE32(p) || LE32(T) || LE32(m) || LE32(t) || LE32(v) || LE32(y) || LE32(length(P)) || P ||
///              LE32(length(S)) || S || LE32(length(K)) || K || LE32(length(X)) || X),  v = 0x13
pub open spec fn argon2_h0_spec(p: nat, taglen: nat, m: nat, t: nat, y: nat, pwd: Seq<u8>, salt: Seq<u8>, key: Seq<u8>, ad: Seq<u8>) -> Seq<u8> {
    b2b(
        64,
        le32(p) + le32(taglen) + le32(m) + le32(t) + le32(0x13) + le32(y) + le32(pwd.len()) + pwd + le32(salt.len()) + salt + le32(
            key.len(),
        ) + key + le32(ad.len()) + ad,
    )
}

// ------------------------------------------------------------------------------------------------
// RFC 9106 section 3.3: variable-length hash function H'
// ------------------------------------------------------------------------------------------------
/// V_i (i >= 1):  V_1 = H^64(a),  V_i = H^64(V_{i-1})
pub open spec fn long_v(i: nat, a: Seq<u8>) -> Seq<u8>
    decreases i,
{
    if i <= 1 { b2b(64, a) } else { b2b(64, long_v((i - 1) as nat, a)) }
}

/// W_1 || .. || W_n,  W_i = first 32 bytes of V_i
pub open spec fn long_w(n: nat, a: Seq<u8>) -> Seq<u8>
    decreases n,
{
    if n == 0 { Seq::<u8>::empty() } else { long_w((n - 1) as nat, a) + long_v(n, a).subrange(0, 32) }
}

/// H'^T(A): if T <= 64 then H^T(LE32(T) || A) else r = ceil(T/32) - 2 and W_1 || .. || W_r || V_{r+1},
/// V_{r+1} = H^(T - 32 r)(V_r)
pub open spec fn blake2b_long_spec(t: nat, input: Seq<u8>) -> Seq<u8> {
    let a = le32(t) + input;
    if t <= 64 {
        b2b(t, a)
    } else {
        let r = ((t + 31) / 32 - 2) as nat;
        long_w(r, a) + b2b((t - 32 * r) as nat, long_v(r, a))
    }
}

// ------------------------------------------------------------------------------------------------
// RFC 9106 section 3.6: permutation P, built on the BlaMka-modified BLAKE2b round function GB
// ------------------------------------------------------------------------------------------------
/// a + b + 2 * trunc(a) * trunc(b) mod 2^64  (trunc = low 32 bits)
pub open spec fn fblamka_spec(a: u64, b: u64) -> u64 {
    ((a as nat + b as nat + 2 * ((a as nat % 0x1_0000_0000) * (b as nat % 0x1_0000_0000))) % 0x1_0000_0000_0000_0000) as u64
}

/// GB(a, b, c, d) on the words at positions a, b, c, d of s (rotations 32, 24, 16, 63 to the right)
#[verifier::opaque]
pub open spec fn gb_spec(s: Seq<u64>, a: int, b: int, c: int, d: int) -> Seq<u64> {
    let s = s.update(a, fblamka_spec(s[a], s[b]));
    let s = s.update(d, spec_rotr64(s[d] ^ s[a], 32));
    let s = s.update(c, fblamka_spec(s[c], s[d]));
    let s = s.update(b, spec_rotr64(s[b] ^ s[c], 24));
    let s = s.update(a, fblamka_spec(s[a], s[b]));
    let s = s.update(d, spec_rotr64(s[d] ^ s[a], 16));
    let s = s.update(c, fblamka_spec(s[c], s[d]));
    let s = s.update(b, spec_rotr64(s[b] ^ s[c], 63));
    s
}

/// P applied in place to the 16 words of s whose positions are ix[0..16] (v_0 .. v_15 of the 4x4 matrix):
/// four column GBs then four diagonal GBs
pub open spec fn p_at(s: Seq<u64>, ix: Seq<int>) -> Seq<u64> {
    let s = gb_spec(s, ix[0], ix[4], ix[8], ix[12]);
    let s = gb_spec(s, ix[1], ix[5], ix[9], ix[13]);
    let s = gb_spec(s, ix[2], ix[6], ix[10], ix[14]);
    let s = gb_spec(s, ix[3], ix[7], ix[11], ix[15]);
    let s = gb_spec(s, ix[0], ix[5], ix[10], ix[15]);
    let s = gb_spec(s, ix[1], ix[6], ix[11], ix[12]);
    let s = gb_spec(s, ix[2], ix[7], ix[8], ix[13]);
    let s = gb_spec(s, ix[3], ix[4], ix[9], ix[14]);
    s
}

/// word positions of row i of the 8x8 matrix of 16-byte registers (registers 8i .. 8i+7 = words 16i .. 16i+15)
pub open spec fn row_ix(i: int) -> Seq<int> {
    Seq::new(16, |k: int| 16 * i + k)
}

/// word positions of column i (registers i, i+8, .., i+56 = words 2i, 2i+1, 2i+16, 2i+17, ..)
pub open spec fn col_ix(i: int) -> Seq<int> {
    Seq::new(16, |k: int| 2 * i + 16 * (k / 2) + k % 2)
}

pub open spec fn rows_spec(s: Seq<u64>, n: nat) -> Seq<u64>
    decreases n,
{
    if n == 0 { s } else { p_at(rows_spec(s, (n - 1) as nat), row_ix(n - 1)) }
}

pub open spec fn cols_spec(s: Seq<u64>, n: nat) -> Seq<u64>
    decreases n,
{
    if n == 0 { s } else { p_at(cols_spec(s, (n - 1) as nat), col_ix(n - 1)) }
}

pub open spec fn xor_seq(a: Seq<u64>, b: Seq<u64>) -> Seq<u64> {
    Seq::new(a.len(), |i: int| a[i] ^ b[i])
}

/// in-place formulation of G used by the contracts of fill_block (rows then columns, each through p_at on the block
/// itself); proof_argon2::lemma_g_spec_is_rfc proves it equal to g_rfc below
pub open spec fn g_spec(x: Seq<u64>, y: Seq<u64>) -> Seq<u64> {
    let r = xor_seq(x, y);
    xor_seq(cols_spec(rows_spec(r, 8), 8), r)
}

// ---- RFC 9106 section 3.5 / 3.6 in the RFC's own shape ---------------------------------------------------------
pub open spec fn id16() -> Seq<int> {
    Seq::new(16, |k: int| k)
}

/// RFC 9106 3.6: the permutation P on (S_0, .., S_7) = 16 words v_0 .. v_15, S_i = v_{2i+1} || v_{2i}
pub open spec fn p16(v: Seq<u64>) -> Seq<u64> {
    p_at(v, id16())
}

/// row i of the 8x8 register matrix: registers R_{8i} .. R_{8i+7} = words 16 i .. 16 i + 15
pub open spec fn row_of(r: Seq<u64>, i: int) -> Seq<u64> {
    r.subrange(16 * i, 16 * i + 16)
}

/// column i: registers Q_i, Q_{i+8}, .., Q_{i+56}; register k = words 2k, 2k+1
pub open spec fn col_of(q: Seq<u64>, i: int) -> Seq<u64> {
    Seq::new(16, |k: int| q[2 * (i + 8 * (k / 2)) + k % 2])
}

/// (Q_{8i}, .., Q_{8i+7}) <- P(R_{8i}, .., R_{8i+7}) for every row i
pub open spec fn g_rows(r: Seq<u64>) -> Seq<u64> {
    Seq::new(128, |j: int| p16(row_of(r, j / 16))[j % 16])
}

/// (Z_i, Z_{i+8}, .., Z_{i+56}) <- P(Q_i, Q_{i+8}, .., Q_{i+56}) for every column i; word j belongs to register j / 2,
/// which is in column (j / 2) % 8 and row (j / 2) / 8
pub open spec fn g_cols(q: Seq<u64>) -> Seq<u64> {
    Seq::new(128, |j: int| p16(col_of(q, (j / 2) % 8))[2 * ((j / 2) / 8) + j % 2])
}

/// G(X, Y): R = X xor Y, rows, columns, output Z xor R
pub open spec fn g_rfc(x: Seq<u64>, y: Seq<u64>) -> Seq<u64> {
    let r = xor_seq(x, y);
    xor_seq(g_cols(g_rows(r)), r)
}


// ------------------------------------------------------------------------------------------------
// blocks as 1024 bytes <-> 128 little-endian 64-bit words
// ------------------------------------------------------------------------------------------------
pub open spec fn words_of_bytes(b: Seq<u8>) -> Seq<u64> {
    Seq::new(128, |i: int| le_nat(b.subrange(8 * i, 8 * i + 8)) as u64)
}

pub open spec fn bytes_of_words(w: Seq<u64>) -> Seq<u8> {
    Seq::new(1024, |j: int| nat_to_le(w[j / 8] as nat, 8)[j % 8])
}

// ------------------------------------------------------------------------------------------------
// RFC 9106 section 3.4.2: mapping J1 to the reference block index (within one lane of 4 segments)
// ------------------------------------------------------------------------------------------------
/// |W|: number of blocks that may be referenced from position (pass, slice, index) when the reference lane is
/// (same = true) or is not the current lane: the blocks of the last 3 finished segments (pass 0: of all finished
/// segments), plus - in the current lane - the blocks already built in the current segment, minus the previous block
pub open spec fn ref_area_size(pass: nat, slice: nat, index: nat, seg: nat, same: bool) -> int {
    let finished = if pass == 0 { slice * seg } else { 3 * seg };
    if same { finished + index - 1 } else { finished - (if index == 0 { 1int } else { 0int }) }
}

/// position of the oldest block of W: pass 0: block 0; later passes: first block of the next slice
pub open spec fn ref_start(pass: nat, slice: nat, seg: nat) -> nat {
    if pass == 0 || slice == 3 { 0 } else { (slice + 1) * seg }
}

/// x = J1^2 / 2^32, y = (|W| * x) / 2^32, zz = |W| - 1 - y
pub open spec fn map_j1(size: int, j1: nat) -> int {
    let x = (j1 * j1) / 0x1_0000_0000;
    let y = (size * x) / 0x1_0000_0000;
    size - 1 - y
}

/// z: the zz-th block of W, counted from the oldest one, as a position in the lane of q = 4 * seg blocks
pub open spec fn ref_index_spec(pass: nat, slice: nat, index: nat, seg: nat, same: bool, j1: nat) -> int {
    (ref_start(pass, slice, seg) + map_j1(ref_area_size(pass, slice, index, seg, same), j1)) % (4 * seg) as int
}

// ------------------------------------------------------------------------------------------------
// RFC 9106 section 3.4.1: J1 || J2, and section 3.2 steps 5-6 for one lane (p = 1): filling the memory
// ------------------------------------------------------------------------------------------------
pub open spec fn zero_blk() -> Seq<u64> {
    Seq::new(128, |k: int| 0u64)
}

/// Z || LE64(ctr) || ZERO(968) as 128 words, Z = (r, l, sl, m', t, y)
pub open spec fn addr_input(pass: nat, lane: nat, slice: nat, mprime: nat, t: nat, y: nat, ctr: nat) -> Seq<u64> {
    Seq::new(
        128,
        |k: int|
            if k == 0 {
                pass as u64
            } else if k == 1 {
                lane as u64
            } else if k == 2 {
                slice as u64
            } else if k == 3 {
                mprime as u64
            } else if k == 4 {
                t as u64
            } else if k == 5 {
                y as u64
            } else if k == 6 {
                ctr as u64
            } else {
                0u64
            },
    )
}

/// the ctr-th 1024-byte address block G(ZERO(1024), G(ZERO(1024), Z || LE64(ctr) || ZERO(968))), ctr = 1, 2, ..
pub open spec fn addr_block(pass: nat, lane: nat, slice: nat, mprime: nat, t: nat, y: nat, ctr: nat) -> Seq<u64> {
    g_rfc(zero_blk(), g_rfc(zero_blk(), addr_input(pass, lane, slice, mprime, t, y, ctr)))
}

/// the 8-byte value X = J1 || J2 (J1 = low 32 bits) used for block `index` of the segment (Argon2i addressing)
pub open spec fn addr_j(pass: nat, lane: nat, slice: nat, mprime: nat, t: nat, y: nat, index: nat) -> u64 {
    addr_block(pass, lane, slice, mprime, t, y, index / 128 + 1)[(index % 128) as int]
}

/// Argon2i (y = 1): always data-independent; Argon2id (y = 2): in the first two slices of the first pass
pub open spec fn data_indep(y: nat, pass: nat, slice: nat) -> bool {
    y == 1 || (pass == 0 && slice < 2)
}

/// computation of block j of the lane in pass `pass` (q = 4 * seg blocks, one lane: l = J2 mod 1 = 0):
/// B[j] = G(B[j-1], B[z])            in the first pass,
/// B[j] = G(B[j-1], B[z]) xor B[j]   afterwards (version 1.3); B[-1] is B[q-1]
pub open spec fn argon2_step(mem: Seq<Seq<u64>>, seg: nat, t: nat, y: nat, pass: nat, j: nat) -> Seq<Seq<u64>> {
    let q = 4 * seg;
    let slice = j / seg;
    let index = j % seg;
    let prev = mem[if j == 0 { q - 1 } else { j - 1 }];
    let x: u64 = if data_indep(y, pass, slice) { addr_j(pass, 0, slice, q, t, y, index) } else { prev[0] };
    let j1 = (x as nat) % 0x1_0000_0000;
    let z = ref_index_spec(pass, slice, index, seg, true, j1);
    let g = g_rfc(prev, mem[z]);
    mem.update(j as int, if pass == 0 { g } else { xor_seq(g, mem[j as int]) })
}

/// blocks lo .. hi-1 of the lane, in increasing order
pub open spec fn argon2_steps(mem: Seq<Seq<u64>>, seg: nat, t: nat, y: nat, pass: nat, lo: nat, hi: nat) -> Seq<Seq<u64>>
    decreases hi,
{
    if hi <= lo { mem } else { argon2_step(argon2_steps(mem, seg, t, y, pass, lo, (hi - 1) as nat), seg, t, y, pass, (hi - 1) as nat) }
}

/// one pass over the lane; the first pass starts at block 2
pub open spec fn argon2_pass(mem: Seq<Seq<u64>>, seg: nat, t: nat, y: nat, pass: nat) -> Seq<Seq<u64>> {
    argon2_steps(mem, seg, t, y, pass, if pass == 0 { 2 } else { 0 }, 4 * seg)
}

/// the first n passes
pub open spec fn argon2_passes(mem: Seq<Seq<u64>>, seg: nat, t: nat, y: nat, n: nat) -> Seq<Seq<u64>>
    decreases n,
{
    if n == 0 { mem } else { argon2_pass(argon2_passes(mem, seg, t, y, (n - 1) as nat), seg, t, y, (n - 1) as nat) }
}

/// memory before the first pass: B[0] = H'^(1024)(H_0 || LE32(0) || LE32(lane 0)), B[1] = H'^(1024)(H_0 || LE32(1) || LE32(0));
/// the other blocks are not read before they are written in the first pass (see ref_safe); zero here
pub open spec fn argon2_mem0(h0: Seq<u8>, q: nat) -> Seq<Seq<u64>> {
    Seq::new(
        q,
        |i: int|
            if i == 0 {
                words_of_bytes(blake2b_long_spec(1024, h0 + le32(0) + le32(0)))
            } else if i == 1 {
                words_of_bytes(blake2b_long_spec(1024, h0 + le32(1) + le32(0)))
            } else {
                zero_blk()
            },
    )
}

/// Argon2 (RFC 9106 section 3.2) of type y (1 = Argon2i, 2 = Argon2id), version 0x13, one lane (p = 1), t passes,
/// m KiB requested (m' = 4 * floor(m / 4) blocks used, H_0 hashes the requested m), tag length taglen:
/// tag = H'^(taglen)(B[q - 1]) after t passes
pub open spec fn argon2_spec(y: nat, t: nat, m: nat, taglen: nat, pwd: Seq<u8>, salt: Seq<u8>, key: Seq<u8>, ad: Seq<u8>) -> Seq<u8> {
    let h0 = argon2_h0_spec(1, taglen, m, t, y, pwd, salt, key, ad);
    let seg = m / 4;
    let q = 4 * seg;
    let mem = argon2_passes(argon2_mem0(h0, q), seg, t, y, t);
    blake2b_long_spec(taglen, bytes_of_words(mem[q - 1]))
}

/// the argument ranges of Argon2 accepted by libsodium / dryoc (one lane)
pub open spec fn argon2_args_ok(t: nat, m: nat, taglen: nat, pwd: Seq<u8>, salt: Seq<u8>, key: Seq<u8>, ad: Seq<u8>) -> bool {
    &&& 16 <= taglen <= 0xFFFF_FFFF
    &&& pwd.len() <= 0xFFFF_FFFF
    &&& 8 <= salt.len() <= 0xFFFF_FFFF
    &&& key.len() <= 0xFFFF_FFFF
    &&& ad.len() <= 0xFFFF_FFFF
    &&& 8 <= m <= 0xFFFF_FFFF
    &&& 1 <= t <= 0xFFFF_FFFF
}

pub proof fn lemma_div_mod_seg(slice: nat, seg: nat, index: nat)
    requires
        index < seg,
    ensures
        (slice * seg + index) / seg == slice,
        (slice * seg + index) % seg == index,
{
    vstd::arithmetic::div_mod::lemma_fundamental_div_mod_converse((slice * seg + index) as int, seg as int, slice as int, index as int);
    assert(slice * seg == seg * slice) by (nonlinear_arith);
}

pub proof fn lemma_low32(x: u64)
    ensures
        ((x & 0xFFFFFFFF) as u32) as nat == (x as nat) % 0x1_0000_0000,
{
    assert(((x & 0xFFFFFFFF) as u32) as u64 == x % 0x1_0000_0000) by (bit_vector);
}

pub proof fn lemma_steps_compose(mem: Seq<Seq<u64>>, seg: nat, t: nat, y: nat, pass: nat, lo: nat, mid: nat, hi: nat)
    requires
        lo <= mid <= hi,
    ensures
        argon2_steps(argon2_steps(mem, seg, t, y, pass, lo, mid), seg, t, y, pass, mid, hi) == argon2_steps(mem, seg, t, y, pass, lo, hi),
    decreases hi,
{
    if hi > mid {
        lemma_steps_compose(mem, seg, t, y, pass, lo, mid, (hi - 1) as nat);
    }
}

/// index safety (RFC 9106 3.4.2, same lane): the reference block z is inside the lane, is not the previous block, is
/// not the block being built nor a block of the current segment that has not been built yet in this pass, and in the
/// first pass it is a block that has already been built
pub open spec fn ref_safe(pass: nat, slice: nat, index: nat, seg: nat, z: int) -> bool {
    let cur = slice * seg + index;
    let prev = if cur == 0 { 4 * seg - 1 } else { cur - 1 };
    &&& 0 <= z < 4 * seg
    &&& z != prev
    &&& !(cur <= z < (slice + 1) * seg)
    &&& (pass == 0 ==> z < cur)
}

pub proof fn lemma_map_j1_range(size: int, j1: nat)
    requires
        size >= 1,
        j1 < 0x1_0000_0000,
    ensures
        0 <= map_j1(size, j1) < size,
{
    let x = (j1 * j1) / 0x1_0000_0000;
    assert(j1 * j1 <= 0xFFFF_FFFF * 0xFFFF_FFFF) by (nonlinear_arith) requires 0 <= j1 <= 0xFFFF_FFFF;
    assert(0 <= x <= 0xFFFF_FFFF);
    let w = size * x;
    assert(0 <= w && w <= size * 0xFFFF_FFFF) by (nonlinear_arith) requires w == size * x, 0 <= x <= 0xFFFF_FFFF, size >= 1;
    let y = w / 0x1_0000_0000;
    assert(0 <= y < size);
}

pub proof fn lemma_mod_wrap(s: int, q: int)
    requires
        q > 0,
        0 <= s < 2 * q,
    ensures
        s % q == (if s < q { s } else { s - q }),
{
    if s < q {
        vstd::arithmetic::div_mod::lemma_small_mod(s as nat, q as nat);
    } else {
        vstd::arithmetic::div_mod::lemma_small_mod((s - q) as nat, q as nat);
        vstd::arithmetic::div_mod::lemma_mod_sub_multiples_vanish(s, q);
    }
}

pub proof fn lemma_ref_index_safe(pass: nat, slice: nat, index: nat, seg: nat, j1: nat)
    requires
        seg >= 2,
        slice < 4,
        index < seg,
        pass == 0 && slice == 0 ==> index >= 2,
        j1 < 0x1_0000_0000,
    ensures
        ref_area_size(pass, slice, index, seg, true) >= 1,
        ref_safe(pass, slice, index, seg, ref_index_spec(pass, slice, index, seg, true, j1)),
{
    lemma_slice_seg(slice as int, seg as int);
    let size = ref_area_size(pass, slice, index, seg, true);
    lemma_map_j1_range(size, j1);
    let zz = map_j1(size, j1);
    let st = ref_start(pass, slice, seg);
    lemma_mod_wrap(st + zz, (4 * seg) as int);
}

pub proof fn lemma_shr32(v: u64)
    ensures
        (v >> 32) == v / 0x1_0000_0000,
        (v >> 32) <= 0xFFFF_FFFF,
        ((v >> 32) as u32) as u64 == v >> 32,
{
    assert((v >> 32) == v / 0x1_0000_0000 && (v >> 32) <= 0xFFFF_FFFF && ((v >> 32) as u32) as u64 == v >> 32) by (bit_vector);
}

/// the two 32x32 -> 64 bit multiplications of index_alpha do not wrap and compute zz = map_j1(size, j1) in [0, size)
pub proof fn lemma_map_j1(size: u32, j1: u32)
    requires
        size >= 1,
    ensures
        ({
            let x = (((j1 as u64).wrapping_mul(j1 as u64)) >> 32) as u32;
            let y = (((size as u64).wrapping_mul(x as u64)) >> 32) as u32;
            &&& y < size
            &&& size - 1 - y == map_j1(size as int, j1 as nat)
        }),
        0 <= map_j1(size as int, j1 as nat) < size,
{
    let a = j1 as u64;
    assert(a * a <= 0xFFFF_FFFF * 0xFFFF_FFFF) by (nonlinear_arith) requires 0 <= a <= 0xFFFF_FFFF;
    let v = a.wrapping_mul(a);
    assert(v == a * a);
    lemma_shr32(v);
    let x = (v >> 32) as u32;
    assert(x as int == (j1 as nat * j1 as nat) / 0x1_0000_0000);
    let b = size as u64;
    let c = x as u64;
    assert(b * c <= b * 0xFFFF_FFFF) by (nonlinear_arith) requires 0 <= c <= 0xFFFF_FFFF, 0 <= b;
    let w = b.wrapping_mul(c);
    assert(w == b * c);
    lemma_shr32(w);
    let y = (w >> 32) as u32;
    assert(y as int == (size as int * x as int) / 0x1_0000_0000);
    assert(w < b * 0x1_0000_0000);
    assert(y < b) by (nonlinear_arith) requires y as int == w as int / 0x1_0000_0000, w < b * 0x1_0000_0000, 0 <= w;
}

pub proof fn lemma_slice_seg(slice: int, seg: int)
    requires
        0 <= slice < 4,
    ensures
        slice * seg == (if slice == 0 { 0 } else if slice == 1 { seg } else if slice == 2 { 2 * seg } else { 3 * seg }),
        (slice + 1) * seg == slice * seg + seg,
{
    assert((slice + 1) * seg == slice * seg + seg) by (nonlinear_arith);
    if slice == 0 {
    } else if slice == 1 {
    } else if slice == 2 {
        assert(2 * seg == seg + seg);
    } else {
        assert(slice == 3);
    }
}

pub proof fn lemma_le32_small()
    ensures
        le32(0) =~= seq![0u8, 0u8, 0u8, 0u8],
        le32(1) =~= seq![1u8, 0u8, 0u8, 0u8],
{
    reveal_with_fuel(nat_to_le, 5);
}

pub proof fn lemma_fblamka(x: u64, y: u64)
    ensures
        (x & 0xFFFFFFFFu64) * (y & 0xFFFFFFFFu64) <= u64::MAX,
        x.wrapping_add(y).wrapping_add(2u64.wrapping_mul(((x & 0xFFFFFFFFu64) * (y & 0xFFFFFFFFu64)) as u64)) == fblamka_spec(x, y),
{
    let xl = x & 0xFFFFFFFFu64;
    let yl = y & 0xFFFFFFFFu64;
    assert(xl == x % 0x1_0000_0000 && xl <= 0xFFFF_FFFF) by (bit_vector) requires xl == x & 0xFFFFFFFFu64;
    assert(yl == y % 0x1_0000_0000 && yl <= 0xFFFF_FFFF) by (bit_vector) requires yl == y & 0xFFFFFFFFu64;
    assert(xl * yl <= 0xFFFF_FFFF * 0xFFFF_FFFF) by (nonlinear_arith) requires 0 <= xl <= 0xFFFF_FFFF, 0 <= yl <= 0xFFFF_FFFF;
    let xy = (xl * yl) as u64;
    let m = 0x1_0000_0000_0000_0000int;
    let t = 2u64.wrapping_mul(xy);
    assert(t as int == (2 * xy) % m);
    let s = x.wrapping_add(y);
    assert(s as int == (x + y) % m);
    let r = s.wrapping_add(t);
    assert(r as int == (s + t) % m);
    vstd::arithmetic::div_mod::lemma_add_mod_noop((x + y) as int, (2 * xy) as int, m);
}


pub proof fn lemma_xor_seq_comm(a: Seq<u64>, b: Seq<u64>)
    requires
        a.len() == b.len(),
    ensures
        xor_seq(a, b) == xor_seq(b, a),
{
    assert forall|i: int| 0 <= i < a.len() implies (a[i] ^ b[i]) == (b[i] ^ a[i]) by {
        let x = a[i];
        let y = b[i];
        assert(x ^ y == y ^ x) by (bit_vector);
    }
    assert(xor_seq(a, b) =~= xor_seq(b, a));
}

/// (R xor N) xor Z == (Z xor R) xor N
pub proof fn lemma_xor_seq_3(r: Seq<u64>, n: Seq<u64>, z: Seq<u64>)
    requires
        r.len() == n.len(),
        r.len() == z.len(),
    ensures
        xor_seq(xor_seq(r, n), z) == xor_seq(xor_seq(z, r), n),
{
    assert forall|i: int| 0 <= i < r.len() implies ((r[i] ^ n[i]) ^ z[i]) == ((z[i] ^ r[i]) ^ n[i]) by {
        let x = r[i];
        let y = n[i];
        let w = z[i];
        assert((x ^ y) ^ w == (w ^ x) ^ y) by (bit_vector);
    }
    assert(xor_seq(xor_seq(r, n), z) =~= xor_seq(xor_seq(z, r), n));
}

pub proof fn lemma_xor_zero(a: Seq<u64>, z: Seq<u64>)
    requires
        a.len() == z.len(),
        forall|i: int| 0 <= i < z.len() ==> z[i] == 0,
    ensures
        xor_seq(a, z) == a,
{
    assert forall|i: int| 0 <= i < a.len() implies (a[i] ^ z[i]) == a[i] by {
        let x = a[i];
        assert(x ^ 0 == x) by (bit_vector);
    }
    assert(xor_seq(a, z) =~= a);
}

pub proof fn lemma_g_len(x: Seq<u64>, y: Seq<u64>)
    ensures
        g_spec(x, y).len() == x.len(),
{
    let r = xor_seq(x, y);
    lemma_rows_len(r, 8);
    lemma_cols_len(rows_spec(r, 8), 8);
}

pub proof fn lemma_gb_len(s: Seq<u64>, a: int, b: int, c: int, d: int)
    ensures
        gb_spec(s, a, b, c, d).len() == s.len(),
{
    reveal(gb_spec);
}

pub proof fn lemma_p_at_len(s: Seq<u64>, ix: Seq<int>)
    ensures
        p_at(s, ix).len() == s.len(),
{
    reveal(gb_spec);
}

pub proof fn lemma_rows_len(s: Seq<u64>, n: nat)
    ensures
        rows_spec(s, n).len() == s.len(),
    decreases n,
{
    if n > 0 {
        lemma_rows_len(s, (n - 1) as nat);
        lemma_p_at_len(rows_spec(s, (n - 1) as nat), row_ix(n - 1));
    }
}

pub proof fn lemma_cols_len(s: Seq<u64>, n: nat)
    ensures
        cols_spec(s, n).len() == s.len(),
    decreases n,
{
    if n > 0 {
        lemma_cols_len(s, (n - 1) as nat);
        lemma_p_at_len(cols_spec(s, (n - 1) as nat), col_ix(n - 1));
    }
}

} // verus!
