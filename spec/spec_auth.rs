//@ props=C04,C07,C08,C11
//! Lemmas and shims for the MAC wrappers (crypto_auth / crypto_onetimeauth / auth / onetimeauth / generichash).
//! HMAC itself is specified in spec_hash.rs (`hmac_pad`, `hmac_sha512_spec`, `hmac_sha512_256_spec`, RFC 2104).
use vstd::prelude::*;
use crate::verif_spec::*;
use crate::spec_hash::*;

verus! {

/// the key recovered from a padded 128-byte block (inverse of `hmac_pad` on its first `n` bytes)
pub open spec fn hmac_unpad(block: Seq<u8>, pad: u8, n: nat) -> Seq<u8> {
    Seq::new(n, |i: int| block[i] ^ pad)
}

pub proof fn lemma_xor_comm_inv(a: u8, b: u8)
    ensures
        a ^ b == b ^ a,
        (a ^ b) ^ b == a,
{
    assert(a ^ b == b ^ a) by (bit_vector);
    assert((a ^ b) ^ b == a) by (bit_vector);
}

/// `hmac_unpad` inverts `hmac_pad` for keys that fit the block
pub proof fn lemma_hmac_unpad_pad(key: Seq<u8>, pad: u8)
    requires
        key.len() <= 128,
    ensures
        hmac_unpad(hmac_pad(key, pad), pad, key.len()) == key,
{
    assert forall|i: int| 0 <= i < key.len() implies hmac_unpad(hmac_pad(key, pad), pad, key.len())[i] == key[i] by {
        lemma_xor_comm_inv(key[i], pad);
    }
    assert(hmac_unpad(hmac_pad(key, pad), pad, key.len()) =~= key);
}

/// a sequence is its first `k` elements followed by the rest
pub proof fn lemma_seq_split(s: Seq<u8>, k: int)
    requires
        0 <= k <= s.len(),
    ensures
        s == s.subrange(0, k) + s.subrange(k, s.len() as int),
{
    assert(s =~= s.subrange(0, k) + s.subrange(k, s.len() as int));
}

/// appending `t` to `s` leaves the first `k <= |s|` elements alone and appends `t` to the rest
pub proof fn lemma_append_split(s: Seq<u8>, t: Seq<u8>, k: int)
    requires
        0 <= k <= s.len(),
    ensures
        (s + t).subrange(0, k) == s.subrange(0, k),
        (s + t).subrange(k, (s + t).len() as int) == s.subrange(k, s.len() as int) + t,
{
    assert((s + t).subrange(0, k) =~= s.subrange(0, k));
    assert((s + t).subrange(k, (s + t).len() as int) =~= s.subrange(k, s.len() as int) + t);
}

/// a freshly initialised HMAC inner state: exactly the 128-byte pad block, no message bytes yet
pub proof fn lemma_hmac_pad_fresh(key: Seq<u8>, pad: u8)
    ensures
        hmac_pad(key, pad).len() == 128,
        hmac_pad(key, pad).subrange(0, 128) == hmac_pad(key, pad),
        hmac_pad(key, pad).subrange(128, 128) == Seq::<u8>::empty(),
{
    assert(hmac_pad(key, pad).subrange(0, 128) =~= hmac_pad(key, pad));
    assert(hmac_pad(key, pad).subrange(128, 128) =~= Seq::<u8>::empty());
}

} // verus!
