//@ props=C01,C05,C07,C08,C09,C12,C13,C18
//! BLAKE2b, written from RFC 7693 (sections 2.5-2.8, 3.1-3.3) with libsodium's salt / personalisation
//! parameter block (BLAKE2 paper section 2.5; libsodium `crypto_generichash_blake2b_init_salt_personal`).
//! Nothing in this file is derived from the dryoc code; the tables are the RFC tables and are tied to the
//! tables of the code by `compute` in contracts/blake2b_soft.vc.
use vstd::prelude::*;
use crate::verif_spec::*;

verus! {

// ------------------------------------------------------------------------------------------------
// RFC 7693 2.6 initialisation vector, 2.7 message schedule
// ------------------------------------------------------------------------------------------------
pub open spec fn blake2b_iv(i: int) -> u64 {
    if i == 0 {
        0x6a09e667f3bcc908
    } else if i == 1 {
        0xbb67ae8584caa73b
    } else if i == 2 {
        0x3c6ef372fe94f82b
    } else if i == 3 {
        0xa54ff53a5f1d36f1
    } else if i == 4 {
        0x510e527fade682d1
    } else if i == 5 {
        0x9b05688c2b3e6c1f
    } else if i == 6 {
        0x1f83d9abfb41bd6b
    } else {
        0x5be0cd19137e2179
    }
}

/// SIGMA[0..9] (RFC 7693 2.7); round r uses SIGMA[r mod 10]
pub open spec fn blake2b_sigma_row(r: int) -> Seq<int> {
    if r == 0 {
        seq![0, 1, 2, 3, 4, 5, 6, 7, 8, 9, 10, 11, 12, 13, 14, 15]
    } else if r == 1 {
        seq![14, 10, 4, 8, 9, 15, 13, 6, 1, 12, 0, 2, 11, 7, 5, 3]
    } else if r == 2 {
        seq![11, 8, 12, 0, 5, 2, 15, 13, 10, 14, 3, 6, 7, 1, 9, 4]
    } else if r == 3 {
        seq![7, 9, 3, 1, 13, 12, 11, 14, 2, 6, 5, 10, 4, 0, 15, 8]
    } else if r == 4 {
        seq![9, 0, 5, 7, 2, 4, 10, 15, 14, 1, 11, 12, 6, 8, 3, 13]
    } else if r == 5 {
        seq![2, 12, 6, 10, 0, 11, 8, 3, 4, 13, 7, 5, 15, 14, 1, 9]
    } else if r == 6 {
        seq![12, 5, 1, 15, 14, 13, 4, 10, 0, 7, 6, 3, 9, 2, 8, 11]
    } else if r == 7 {
        seq![13, 11, 7, 14, 12, 1, 3, 9, 5, 0, 15, 4, 8, 6, 2, 10]
    } else if r == 8 {
        seq![6, 15, 14, 9, 11, 3, 0, 8, 12, 2, 13, 7, 1, 4, 10, 5]
    } else {
        seq![10, 2, 8, 4, 7, 6, 1, 5, 15, 11, 9, 14, 3, 12, 13, 0]
    }
}

pub open spec fn blake2b_sigma(r: int, k: int) -> int {
    blake2b_sigma_row(r % 10)[k]
}

// ------------------------------------------------------------------------------------------------
// RFC 7693 3.1 mixing function G (w = 64; R1..R4 = 32, 24, 16, 63)
// ------------------------------------------------------------------------------------------------
pub open spec fn b2_add64(a: u64, b: u64) -> u64 {
    ((a as int + b as int) % 0x1_0000_0000_0000_0000) as u64
}

pub open spec fn blake2b_g(v: Seq<u64>, a: int, b: int, c: int, d: int, x: u64, y: u64) -> Seq<u64> {
    let v1 = v.update(a, b2_add64(v[a], b2_add64(v[b], x)));
    let v2 = v1.update(d, spec_rotr64(v1[d] ^ v1[a], 32));
    let v3 = v2.update(c, b2_add64(v2[c], v2[d]));
    let v4 = v3.update(b, spec_rotr64(v3[b] ^ v3[c], 24));
    let v5 = v4.update(a, b2_add64(v4[a], b2_add64(v4[b], y)));
    let v6 = v5.update(d, spec_rotr64(v5[d] ^ v5[a], 16));
    let v7 = v6.update(c, b2_add64(v6[c], v6[d]));
    v7.update(b, spec_rotr64(v7[b] ^ v7[c], 63))
}

// ------------------------------------------------------------------------------------------------
// RFC 7693 3.2 compression function F
// ------------------------------------------------------------------------------------------------
/// one round: the eight G applications (columns, then diagonals) with the schedule s = SIGMA[r mod 10]
pub open spec fn blake2b_round(v: Seq<u64>, m: Seq<u64>, r: int) -> Seq<u64> {
    let s = blake2b_sigma_row(r % 10);
    let v = blake2b_g(v, 0, 4, 8, 12, m[s[0]], m[s[1]]);
    let v = blake2b_g(v, 1, 5, 9, 13, m[s[2]], m[s[3]]);
    let v = blake2b_g(v, 2, 6, 10, 14, m[s[4]], m[s[5]]);
    let v = blake2b_g(v, 3, 7, 11, 15, m[s[6]], m[s[7]]);
    let v = blake2b_g(v, 0, 5, 10, 15, m[s[8]], m[s[9]]);
    let v = blake2b_g(v, 1, 6, 11, 12, m[s[10]], m[s[11]]);
    let v = blake2b_g(v, 2, 7, 8, 13, m[s[12]], m[s[13]]);
    blake2b_g(v, 3, 4, 9, 14, m[s[14]], m[s[15]])
}

/// rounds 0 .. n-1
pub open spec fn blake2b_rounds(v: Seq<u64>, m: Seq<u64>, n: nat) -> Seq<u64>
    decreases n,
{
    if n == 0 {
        v
    } else {
        blake2b_round(blake2b_rounds(v, m, (n - 1) as nat), m, n - 1)
    }
}

/// m[0..15]: the 128-byte block as sixteen little-endian 64-bit words
pub open spec fn blake2b_msg_words(block: Seq<u8>) -> Seq<u64> {
    Seq::new(16, |i: int| le_nat(block.subrange(8 * i, 8 * i + 8)) as u64)
}

pub open spec fn blake2b_two64() -> nat {
    0x1_0000_0000_0000_0000
}

/// the 128-bit offset counter t held as two 64-bit words (t[0] low, t[1] high)
pub open spec fn blake2b_counter(t0: u64, t1: u64) -> nat {
    t0 as nat + blake2b_two64() * (t1 as nat)
}

/// local work vector: v[0..7] = h, v[8..15] = IV, v[12] ^= t mod 2^64, v[13] ^= t >> 64, last: v[14] ^= 0xFF..FF
pub open spec fn blake2b_init_work(h: Seq<u64>, t: nat, last: bool) -> Seq<u64> {
    Seq::new(
        16,
        |i: int|
            if i < 8 {
                h[i]
            } else if i < 12 {
                blake2b_iv(i - 8)
            } else if i == 12 {
                blake2b_iv(4) ^ ((t % blake2b_two64()) as u64)
            } else if i == 13 {
                blake2b_iv(5) ^ (((t / blake2b_two64()) % blake2b_two64()) as u64)
            } else if i == 14 {
                if last {
                    blake2b_iv(6) ^ 0xFFFF_FFFF_FFFF_FFFFu64
                } else {
                    blake2b_iv(6)
                }
            } else {
                blake2b_iv(7)
            },
    )
}

/// F(h, m, t, f): twelve rounds, then h[i] ^= v[i] ^ v[i+8]
/// (opaque only to keep client proofs cheap: `reveal(compress_rfc)` where the body is needed; `compute` sees it)
#[verifier::opaque]
pub open spec fn compress_rfc(h: Seq<u64>, block: Seq<u8>, t: nat, last: bool) -> Seq<u64> {
    let v = blake2b_rounds(blake2b_init_work(h, t, last), blake2b_msg_words(block), 12);
    Seq::new(8, |i: int| h[i] ^ v[i] ^ v[i + 8])
}

// ------------------------------------------------------------------------------------------------
// RFC 7693 2.5 / 2.8 parameter block (sequential mode), extended by salt and personalisation
// ------------------------------------------------------------------------------------------------
/// 64 bytes: digest_length, key_length, fanout = 1, depth = 1, leaf_length = 0 (4), node_offset = 0 (8),
/// node_depth = 0, inner_length = 0, reserved (14), salt (16), personal (16)
pub open spec fn blake2b_param_block(outlen: nat, keylen: nat, salt: Seq<u8>, personal: Seq<u8>) -> Seq<u8> {
    seq![outlen as u8, keylen as u8, 1u8, 1u8] + zeros(4) + zeros(8) + seq![0u8, 0u8] + zeros(14) + salt + personal
}

/// h[0..7] = IV[0..7] ^ p[0..7], p = parameter block as eight little-endian words
pub open spec fn blake2b_h0(outlen: nat, keylen: nat, salt: Seq<u8>, personal: Seq<u8>) -> Seq<u64> {
    let p = blake2b_param_block(outlen, keylen, salt, personal);
    Seq::new(8, |i: int| blake2b_iv(i) ^ (le_nat(p.subrange(8 * i, 8 * i + 8)) as u64))
}

// ------------------------------------------------------------------------------------------------
// RFC 7693 3.3 padding data and computing a hash
// ------------------------------------------------------------------------------------------------
/// if kk > 0 the key, zero padded to one block, is the first data block
pub open spec fn blake2b_key_block(key: Seq<u8>) -> Seq<u8> {
    if key.len() == 0 {
        Seq::empty()
    } else {
        key + zeros((128 - key.len()) as nat)
    }
}

/// dd - 1: number of data blocks before the final block (dd = ceil(len / 128), dd = 1 for empty data)
pub open spec fn blake2b_blocks_before_last(len: nat) -> nat {
    if len == 0 {
        0
    } else {
        ((len - 1) / 128) as nat
    }
}

/// h after the first n (non-final) blocks of `data`: h = F(h, d[i], (i + 1) * 128, FALSE)
pub open spec fn blake2b_absorb_blocks(h: Seq<u64>, data: Seq<u8>, n: nat) -> Seq<u64>
    decreases n,
{
    if n == 0 {
        h
    } else {
        compress_rfc(blake2b_absorb_blocks(h, data, (n - 1) as nat), data.subrange(128 * (n - 1), 128 * n as int), 128 * n, false)
    }
}

/// little-endian serialisation of the state words
pub open spec fn blake2b_words_to_bytes(h: Seq<u64>) -> Seq<u8>
    decreases h.len(),
{
    if h.len() == 0 {
        Seq::empty()
    } else {
        nat_to_le(h[0] as nat, 8) + blake2b_words_to_bytes(h.subrange(1, h.len() as int))
    }
}

/// the final state h: all blocks but the last with f = FALSE, then the last block (zero padded; empty only if there
/// is no data at all) with t = total number of data bytes (key block included) and f = TRUE
pub open spec fn blake2b_final_h(outlen: nat, key: Seq<u8>, salt: Seq<u8>, personal: Seq<u8>, msg: Seq<u8>) -> Seq<u64> {
    let data = blake2b_key_block(key) + msg;
    let n = blake2b_blocks_before_last(data.len());
    let h = blake2b_absorb_blocks(blake2b_h0(outlen, key.len(), salt, personal), data, n);
    let tail = data.subrange(128 * n as int, data.len() as int);
    compress_rfc(h, tail + zeros((128 - tail.len()) as nat), data.len(), true)
}

/// the final state serialised little-endian (64 bytes)
pub open spec fn blake2b_rfc_full(outlen: nat, key: Seq<u8>, salt: Seq<u8>, personal: Seq<u8>, msg: Seq<u8>) -> Seq<u8> {
    blake2b_words_to_bytes(blake2b_final_h(outlen, key, salt, personal, msg))
}

/// BLAKE2b(outlen, key, salt, personal, msg): first `outlen` bytes of the serialised final state.
/// salt / personal are 16 bytes each; an absent salt / personal is 16 zero bytes (then this is exactly RFC 7693).
pub open spec fn blake2b_rfc(outlen: nat, key: Seq<u8>, salt: Seq<u8>, personal: Seq<u8>, msg: Seq<u8>) -> Seq<u8> {
    blake2b_rfc_full(outlen, key, salt, personal, msg).subrange(0, outlen as int)
}

/// an absent salt / personalisation is 16 zero bytes (libsodium: crypto_generichash_blake2b_init_salt_personal
/// with NULL salt / personal; dryoc: `None => [0u8; 16]`)
pub open spec fn opt16(x: Option<&[u8; 16]>) -> Seq<u8> {
    match x {
        Some(a) => a@,
        None => zeros(16),
    }
}

// ------------------------------------------------------------------------------------------------
// ASSUMED std contracts (rule R2: the body of each shim is the original expression)
// ------------------------------------------------------------------------------------------------
/// R2 shim for `s.len()` on a byte slice. ASSUMPTION (std guarantee, see `slice::from_raw_parts`): a slice never
/// spans more than isize::MAX bytes. Needed once: `input.len() + self.buf.len()` in `State::update`.
#[verifier::external_body]
pub fn shim_b2_slice_len(s: &[u8]) -> (r: usize)
    ensures
        r == s@.len(),
        r <= isize::MAX as usize,
{
    s.len()
}

/// R2 shim for `v.zeroize()` on a Vec<u8> (zeroize crate: every byte set to 0, then the Vec is cleared)
#[verifier::external_body]
pub fn shim_b2_zeroize_vec(v: &mut Vec<u8>)
    ensures
        final(v)@.len() == 0,
{
    use zeroize::Zeroize;
    v.zeroize()
}

/// R2 shim for `a.zeroize()` on [u64; 8] (zeroize crate)
#[verifier::external_body]
pub fn shim_b2_zeroize_u64x8(a: &mut [u64; 8])
    ensures
        forall|i: int| 0 <= i < 8 ==> final(a)@[i] == 0u64,
{
    use zeroize::Zeroize;
    a.zeroize()
}

/// R2 shim for `a.zeroize()` on [u8; 128] (zeroize crate)
#[verifier::external_body]
pub fn shim_b2_zeroize_u8x128(a: &mut [u8; 128])
    ensures
        final(a)@ == zeros(128),
{
    use zeroize::Zeroize;
    a.zeroize()
}

// ------------------------------------------------------------------------------------------------
// Known-answer tests
// ------------------------------------------------------------------------------------------------
/// RFC 7693 Appendix A: BLAKE2b-512("abc")
pub proof fn kat_rfc7693_appendix_a()
    ensures
        blake2b_rfc(64, Seq::empty(), zeros(16), zeros(16), seq![0x61u8, 0x62u8, 0x63u8]) == seq![
            0xBAu8, 0x80u8, 0xA5u8, 0x3Fu8, 0x98u8, 0x1Cu8, 0x4Du8, 0x0Du8, 0x6Au8, 0x27u8, 0x97u8, 0xB6u8, 0x9Fu8, 0x12u8, 0xF6u8, 0xE9u8,
            0x4Cu8, 0x21u8, 0x2Fu8, 0x14u8, 0x68u8, 0x5Au8, 0xC4u8, 0xB7u8, 0x4Bu8, 0x12u8, 0xBBu8, 0x6Fu8, 0xDBu8, 0xFFu8, 0xA2u8, 0xD1u8,
            0x7Du8, 0x87u8, 0xC5u8, 0x39u8, 0x2Au8, 0xABu8, 0x79u8, 0x2Du8, 0xC2u8, 0x52u8, 0xD5u8, 0xDEu8, 0x45u8, 0x33u8, 0xCCu8, 0x95u8,
            0x18u8, 0xD3u8, 0x8Au8, 0xA8u8, 0xDBu8, 0xF1u8, 0x92u8, 0x5Au8, 0xB9u8, 0x23u8, 0x86u8, 0xEDu8, 0xD4u8, 0x00u8, 0x99u8, 0x23u8,
        ],
{
    assert(blake2b_rfc(64, Seq::empty(), zeros(16), zeros(16), seq![0x61u8, 0x62u8, 0x63u8]) == seq![
        0xBAu8, 0x80u8, 0xA5u8, 0x3Fu8, 0x98u8, 0x1Cu8, 0x4Du8, 0x0Du8, 0x6Au8, 0x27u8, 0x97u8, 0xB6u8, 0x9Fu8, 0x12u8, 0xF6u8, 0xE9u8,
        0x4Cu8, 0x21u8, 0x2Fu8, 0x14u8, 0x68u8, 0x5Au8, 0xC4u8, 0xB7u8, 0x4Bu8, 0x12u8, 0xBBu8, 0x6Fu8, 0xDBu8, 0xFFu8, 0xA2u8, 0xD1u8,
        0x7Du8, 0x87u8, 0xC5u8, 0x39u8, 0x2Au8, 0xABu8, 0x79u8, 0x2Du8, 0xC2u8, 0x52u8, 0xD5u8, 0xDEu8, 0x45u8, 0x33u8, 0xCCu8, 0x95u8,
        0x18u8, 0xD3u8, 0x8Au8, 0xA8u8, 0xDBu8, 0xF1u8, 0x92u8, 0x5Au8, 0xB9u8, 0x23u8, 0x86u8, 0xEDu8, 0xD4u8, 0x00u8, 0x99u8, 0x23u8,
    ]) by (compute);
}

/// BLAKE2b-512("") (reference implementation, unkeyed KAT 0): the empty message is one all-zero final block, t = 0
pub proof fn kat_blake2b_empty()
    ensures
        blake2b_rfc(64, Seq::empty(), zeros(16), zeros(16), Seq::empty()) == seq![
            0x78u8, 0x6Au8, 0x02u8, 0xF7u8, 0x42u8, 0x01u8, 0x59u8, 0x03u8, 0xC6u8, 0xC6u8, 0xFDu8, 0x85u8, 0x25u8, 0x52u8, 0xD2u8, 0x72u8,
            0x91u8, 0x2Fu8, 0x47u8, 0x40u8, 0xE1u8, 0x58u8, 0x47u8, 0x61u8, 0x8Au8, 0x86u8, 0xE2u8, 0x17u8, 0xF7u8, 0x1Fu8, 0x54u8, 0x19u8,
            0xD2u8, 0x5Eu8, 0x10u8, 0x31u8, 0xAFu8, 0xEEu8, 0x58u8, 0x53u8, 0x13u8, 0x89u8, 0x64u8, 0x44u8, 0x93u8, 0x4Eu8, 0xB0u8, 0x4Bu8,
            0x90u8, 0x3Au8, 0x68u8, 0x5Bu8, 0x14u8, 0x48u8, 0xB7u8, 0x55u8, 0xD5u8, 0x6Fu8, 0x70u8, 0x1Au8, 0xFEu8, 0x9Bu8, 0xE2u8, 0xCEu8,
        ],
{
    assert(blake2b_rfc(64, Seq::empty(), zeros(16), zeros(16), Seq::empty()) == seq![
            0x78u8, 0x6Au8, 0x02u8, 0xF7u8, 0x42u8, 0x01u8, 0x59u8, 0x03u8, 0xC6u8, 0xC6u8, 0xFDu8, 0x85u8, 0x25u8, 0x52u8, 0xD2u8, 0x72u8,
            0x91u8, 0x2Fu8, 0x47u8, 0x40u8, 0xE1u8, 0x58u8, 0x47u8, 0x61u8, 0x8Au8, 0x86u8, 0xE2u8, 0x17u8, 0xF7u8, 0x1Fu8, 0x54u8, 0x19u8,
            0xD2u8, 0x5Eu8, 0x10u8, 0x31u8, 0xAFu8, 0xEEu8, 0x58u8, 0x53u8, 0x13u8, 0x89u8, 0x64u8, 0x44u8, 0x93u8, 0x4Eu8, 0xB0u8, 0x4Bu8,
            0x90u8, 0x3Au8, 0x68u8, 0x5Bu8, 0x14u8, 0x48u8, 0xB7u8, 0x55u8, 0xD5u8, 0x6Fu8, 0x70u8, 0x1Au8, 0xFEu8, 0x9Bu8, 0xE2u8, 0xCEu8,
        ]) by (compute);
}

/// BLAKE2b-512 keyed KAT 0 of the reference implementation (key = 00 01 .. 3f, empty message): the key block is the only (final) block
pub proof fn kat_blake2b_keyed()
    ensures
        blake2b_rfc(64, Seq::new(64, |i: int| i as u8), zeros(16), zeros(16), Seq::empty()) == seq![
            0x10u8, 0xEBu8, 0xB6u8, 0x77u8, 0x00u8, 0xB1u8, 0x86u8, 0x8Eu8, 0xFBu8, 0x44u8, 0x17u8, 0x98u8, 0x7Au8, 0xCFu8, 0x46u8, 0x90u8,
            0xAEu8, 0x9Du8, 0x97u8, 0x2Fu8, 0xB7u8, 0xA5u8, 0x90u8, 0xC2u8, 0xF0u8, 0x28u8, 0x71u8, 0x79u8, 0x9Au8, 0xAAu8, 0x47u8, 0x86u8,
            0xB5u8, 0xE9u8, 0x96u8, 0xE8u8, 0xF0u8, 0xF4u8, 0xEBu8, 0x98u8, 0x1Fu8, 0xC2u8, 0x14u8, 0xB0u8, 0x05u8, 0xF4u8, 0x2Du8, 0x2Fu8,
            0xF4u8, 0x23u8, 0x34u8, 0x99u8, 0x39u8, 0x16u8, 0x53u8, 0xDFu8, 0x7Au8, 0xEFu8, 0xCBu8, 0xC1u8, 0x3Fu8, 0xC5u8, 0x15u8, 0x68u8,
        ],
{
    assert(blake2b_rfc(64, Seq::new(64, |i: int| i as u8), zeros(16), zeros(16), Seq::empty()) == seq![
            0x10u8, 0xEBu8, 0xB6u8, 0x77u8, 0x00u8, 0xB1u8, 0x86u8, 0x8Eu8, 0xFBu8, 0x44u8, 0x17u8, 0x98u8, 0x7Au8, 0xCFu8, 0x46u8, 0x90u8,
            0xAEu8, 0x9Du8, 0x97u8, 0x2Fu8, 0xB7u8, 0xA5u8, 0x90u8, 0xC2u8, 0xF0u8, 0x28u8, 0x71u8, 0x79u8, 0x9Au8, 0xAAu8, 0x47u8, 0x86u8,
            0xB5u8, 0xE9u8, 0x96u8, 0xE8u8, 0xF0u8, 0xF4u8, 0xEBu8, 0x98u8, 0x1Fu8, 0xC2u8, 0x14u8, 0xB0u8, 0x05u8, 0xF4u8, 0x2Du8, 0x2Fu8,
            0xF4u8, 0x23u8, 0x34u8, 0x99u8, 0x39u8, 0x16u8, 0x53u8, 0xDFu8, 0x7Au8, 0xEFu8, 0xCBu8, 0xC1u8, 0x3Fu8, 0xC5u8, 0x15u8, 0x68u8,
        ]) by (compute);
}

/// a message of exactly 128 bytes (m[i] = 7 i + 3 mod 256) is ONE block, compressed as the final block with t = 128 (expected value: Python hashlib.blake2b)
pub proof fn kat_blake2b_one_full_block()
    ensures
        blake2b_rfc(64, Seq::empty(), zeros(16), zeros(16), Seq::new(128, |i: int| ((7 * i + 3) % 256) as u8)) == seq![
            0x2Du8, 0x9Eu8, 0x32u8, 0x9Fu8, 0x42u8, 0xAFu8, 0xA3u8, 0x60u8, 0x1Du8, 0x64u8, 0x66u8, 0x92u8, 0xB8u8, 0x1Cu8, 0x13u8, 0xE8u8,
            0x7Fu8, 0xCAu8, 0xFFu8, 0x5Bu8, 0xF1u8, 0x59u8, 0x72u8, 0xE9u8, 0x81u8, 0x3Du8, 0x73u8, 0x73u8, 0xCBu8, 0x6Du8, 0x18u8, 0x1Fu8,
            0x95u8, 0x99u8, 0xF4u8, 0xD5u8, 0x13u8, 0xD4u8, 0xAFu8, 0x4Fu8, 0xD6u8, 0xEBu8, 0xD3u8, 0x74u8, 0x97u8, 0xACu8, 0xEBu8, 0x29u8,
            0xABu8, 0xA5u8, 0xEEu8, 0x23u8, 0xEDu8, 0x76u8, 0x4Du8, 0x85u8, 0x10u8, 0xB5u8, 0x52u8, 0xBDu8, 0x08u8, 0x88u8, 0x14u8, 0xFBu8,
        ],
{
    assert(blake2b_rfc(64, Seq::empty(), zeros(16), zeros(16), Seq::new(128, |i: int| ((7 * i + 3) % 256) as u8)) == seq![
            0x2Du8, 0x9Eu8, 0x32u8, 0x9Fu8, 0x42u8, 0xAFu8, 0xA3u8, 0x60u8, 0x1Du8, 0x64u8, 0x66u8, 0x92u8, 0xB8u8, 0x1Cu8, 0x13u8, 0xE8u8,
            0x7Fu8, 0xCAu8, 0xFFu8, 0x5Bu8, 0xF1u8, 0x59u8, 0x72u8, 0xE9u8, 0x81u8, 0x3Du8, 0x73u8, 0x73u8, 0xCBu8, 0x6Du8, 0x18u8, 0x1Fu8,
            0x95u8, 0x99u8, 0xF4u8, 0xD5u8, 0x13u8, 0xD4u8, 0xAFu8, 0x4Fu8, 0xD6u8, 0xEBu8, 0xD3u8, 0x74u8, 0x97u8, 0xACu8, 0xEBu8, 0x29u8,
            0xABu8, 0xA5u8, 0xEEu8, 0x23u8, 0xEDu8, 0x76u8, 0x4Du8, 0x85u8, 0x10u8, 0xB5u8, 0x52u8, 0xBDu8, 0x08u8, 0x88u8, 0x14u8, 0xFBu8,
        ]) by (compute);
}

/// 129 bytes, digest length 32: one non-final block (t = 128) and a final block of 1 byte (t = 129) (expected value: Python hashlib.blake2b)
pub proof fn kat_blake2b_129_bytes()
    ensures
        blake2b_rfc(32, Seq::empty(), zeros(16), zeros(16), Seq::new(129, |i: int| ((7 * i + 3) % 256) as u8)) == seq![
            0xA3u8, 0x4Au8, 0x4Eu8, 0x1Eu8, 0x03u8, 0xC5u8, 0x41u8, 0xDFu8, 0xBFu8, 0x30u8, 0x99u8, 0xC4u8, 0xB6u8, 0xC1u8, 0x43u8, 0xC0u8,
            0x22u8, 0xCEu8, 0xD6u8, 0x5Cu8, 0x28u8, 0xBDu8, 0x7Eu8, 0x8Au8, 0x10u8, 0xE0u8, 0xA0u8, 0x98u8, 0x46u8, 0x1Au8, 0xECu8, 0xF0u8,
        ],
{
    assert(blake2b_rfc(32, Seq::empty(), zeros(16), zeros(16), Seq::new(129, |i: int| ((7 * i + 3) % 256) as u8)) == seq![
            0xA3u8, 0x4Au8, 0x4Eu8, 0x1Eu8, 0x03u8, 0xC5u8, 0x41u8, 0xDFu8, 0xBFu8, 0x30u8, 0x99u8, 0xC4u8, 0xB6u8, 0xC1u8, 0x43u8, 0xC0u8,
            0x22u8, 0xCEu8, 0xD6u8, 0x5Cu8, 0x28u8, 0xBDu8, 0x7Eu8, 0x8Au8, 0x10u8, 0xE0u8, 0xA0u8, 0x98u8, 0x46u8, 0x1Au8, 0xECu8, 0xF0u8,
        ]) by (compute);
}

/// digest length 32, 16-byte key 10..1f, salt a0..af, personal c0..cf, message 01: key block (t = 128) then final block (t = 129); exercises every field of the libsodium parameter block (expected value: Python hashlib.blake2b(key=, salt=, person=))
pub proof fn kat_blake2b_key_salt_personal()
    ensures
        blake2b_rfc(32, Seq::new(16, |i: int| (0x10 + i) as u8), Seq::new(16, |i: int| (0xa0 + i) as u8), Seq::new(16, |i: int| (0xc0 + i) as u8), seq![1u8]) == seq![
            0x52u8, 0x40u8, 0x6Eu8, 0x87u8, 0x44u8, 0x88u8, 0x12u8, 0x61u8, 0x1Du8, 0x8Cu8, 0xB4u8, 0x22u8, 0xBFu8, 0x50u8, 0xB2u8, 0xDAu8,
            0x05u8, 0x07u8, 0x60u8, 0x62u8, 0x3Eu8, 0x82u8, 0x67u8, 0xAAu8, 0xA1u8, 0x94u8, 0xE3u8, 0x88u8, 0x0Du8, 0x9Au8, 0xB6u8, 0xDCu8,
        ],
{
    assert(blake2b_rfc(32, Seq::new(16, |i: int| (0x10 + i) as u8), Seq::new(16, |i: int| (0xa0 + i) as u8), Seq::new(16, |i: int| (0xc0 + i) as u8), seq![1u8]) == seq![
            0x52u8, 0x40u8, 0x6Eu8, 0x87u8, 0x44u8, 0x88u8, 0x12u8, 0x61u8, 0x1Du8, 0x8Cu8, 0xB4u8, 0x22u8, 0xBFu8, 0x50u8, 0xB2u8, 0xDAu8,
            0x05u8, 0x07u8, 0x60u8, 0x62u8, 0x3Eu8, 0x82u8, 0x67u8, 0xAAu8, 0xA1u8, 0x94u8, 0xE3u8, 0x88u8, 0x0Du8, 0x9Au8, 0xB6u8, 0xDCu8,
        ]) by (compute);
}

} // verus!
