//@ props=C01,C03,C05,C07,C13
//! Specifications of the core functions, written from the standards:
//!   * HChaCha20  — draft-irtf-cfrg-xchacha §2.2 over the quarter round / state layout of RFC 8439 §2.1–2.3
//!   * HSalsa20   — D. J. Bernstein, "Salsa20 specification" (quarterround, rowround, columnround, doubleround)
//!                  and "Extending the Salsa20 nonce" (HSalsa20: no final addition, words 0,5,10,15,6,7,8,9)
//!   * SipHash-2-4 — Aumasson & Bernstein, "SipHash: a fast short-input PRF", §2
//! The state is a `Seq<u32>` (16 words) / `Seq<u64>` (4 words); the round functions are structural over it.
//! Every spec function is pinned by published test vectors (`kat_*`, evaluated by `compute`).
//!
//! ASSUMPTIONS introduced here (std items without a vstd specification), each marked `ASSUMPTION`:
//!   * `u32::rotate_left`  (std documentation: bits shifted out on the left re-enter on the right)
//!   * `u32::to_le_bytes` via an R2 shim whose body is the original call (the u64 shim is the shared one of
//!     verif_extern.rs)
use vstd::prelude::*;
use crate::verif_spec::*;

verus! {

// ================================================================================================
// 32-bit words, little-endian (de)serialisation
// ================================================================================================
/// addition modulo 2^32
pub open spec fn add32(a: u32, b: u32) -> u32 {
    ((a as nat + b as nat) % 0x1_0000_0000) as u32
}

/// n-bit left rotation of a 32-bit word, 0 < n < 32 (RFC 8439 §2.1 "<<<", Salsa20 spec "u <<< c")
pub open spec fn rotl32(x: u32, n: u32) -> u32 {
    (x << n) | (x >> ((32 - n) as u32))
}

/// the byte sequence read as little-endian 32-bit words
pub open spec fn words32(b: Seq<u8>) -> Seq<u32> {
    Seq::new(b.len() / 4, |i: int| le_nat(b.subrange(4 * i, 4 * i + 4)) as u32)
}

/// the words serialised in little-endian order
pub open spec fn ser32(w: Seq<u32>) -> Seq<u8> {
    Seq::new(4 * w.len(), |i: int| nat_to_le(w[i / 4] as nat, 4)[i % 4])
}

/// default constants "expand 32-byte k" unless the caller supplies its own
pub open spec fn sigma(consts: Option<(u32, u32, u32, u32)>) -> (u32, u32, u32, u32) {
    match consts {
        Some(c) => c,
        None => (0x61707865u32, 0x3320646eu32, 0x79622d32u32, 0x6b206574u32),
    }
}

// ================================================================================================
// HChaCha20
// ================================================================================================
/// RFC 8439 §2.1: the ChaCha quarter round on four words
pub open spec fn chacha_qr(a: u32, b: u32, c: u32, d: u32) -> (u32, u32, u32, u32) {
    let a = add32(a, b);
    let d = rotl32(d ^ a, 16);
    let c = add32(c, d);
    let b = rotl32(b ^ c, 12);
    let a = add32(a, b);
    let d = rotl32(d ^ a, 8);
    let c = add32(c, d);
    let b = rotl32(b ^ c, 7);
    (a, b, c, d)
}

/// RFC 8439 §2.2: QUARTERROUND(x, y, z, w) on the 16-word state
pub open spec fn chacha_quarterround(s: Seq<u32>, x: int, y: int, z: int, w: int) -> Seq<u32> {
    let q = chacha_qr(s[x], s[y], s[z], s[w]);
    s.update(x, q.0).update(y, q.1).update(z, q.2).update(w, q.3)
}

/// RFC 8439 §2.3: a column round followed by a diagonal round
pub open spec fn chacha_double_round(s: Seq<u32>) -> Seq<u32> {
    let s = chacha_quarterround(s, 0, 4, 8, 12);
    let s = chacha_quarterround(s, 1, 5, 9, 13);
    let s = chacha_quarterround(s, 2, 6, 10, 14);
    let s = chacha_quarterround(s, 3, 7, 11, 15);
    let s = chacha_quarterround(s, 0, 5, 10, 15);
    let s = chacha_quarterround(s, 1, 6, 11, 12);
    let s = chacha_quarterround(s, 2, 7, 8, 13);
    let s = chacha_quarterround(s, 3, 4, 9, 14);
    s
}

pub open spec fn chacha_rounds(s: Seq<u32>, n: nat) -> Seq<u32>
    decreases n,
{
    if n == 0 {
        s
    } else {
        chacha_double_round(chacha_rounds(s, (n - 1) as nat))
    }
}

/// draft-irtf-cfrg-xchacha §2.2: constants | key (8 words) | 16-byte input (4 words)
pub open spec fn hchacha20_init(key: Seq<u8>, input: Seq<u8>, consts: Option<(u32, u32, u32, u32)>) -> Seq<u32> {
    let c = sigma(consts);
    seq![c.0, c.1, c.2, c.3] + words32(key) + words32(input)
}

/// draft-irtf-cfrg-xchacha §2.2: 20 rounds, then the first and the last row, no final addition
pub open spec fn hchacha20_rfc(key: Seq<u8>, input: Seq<u8>, consts: Option<(u32, u32, u32, u32)>) -> Seq<u8> {
    let s = chacha_rounds(hchacha20_init(key, input, consts), 10);
    ser32(s.subrange(0, 4) + s.subrange(12, 16))
}

// ================================================================================================
// HSalsa20
// ================================================================================================
/// Salsa20 spec §3: quarterround(y0,y1,y2,y3) = (z0,z1,z2,z3)
pub open spec fn salsa_qr(y0: u32, y1: u32, y2: u32, y3: u32) -> (u32, u32, u32, u32) {
    let z1 = y1 ^ rotl32(add32(y0, y3), 7);
    let z2 = y2 ^ rotl32(add32(z1, y0), 9);
    let z3 = y3 ^ rotl32(add32(z2, z1), 13);
    let z0 = y0 ^ rotl32(add32(z3, z2), 18);
    (z0, z1, z2, z3)
}

/// the quarterround applied to the words at positions (a, b, c, d) of the 16-word state
pub open spec fn salsa_quarterround(s: Seq<u32>, a: int, b: int, c: int, d: int) -> Seq<u32> {
    let z = salsa_qr(s[a], s[b], s[c], s[d]);
    s.update(a, z.0).update(b, z.1).update(c, z.2).update(d, z.3)
}

/// Salsa20 spec §5
pub open spec fn salsa_columnround(s: Seq<u32>) -> Seq<u32> {
    let s = salsa_quarterround(s, 0, 4, 8, 12);
    let s = salsa_quarterround(s, 5, 9, 13, 1);
    let s = salsa_quarterround(s, 10, 14, 2, 6);
    let s = salsa_quarterround(s, 15, 3, 7, 11);
    s
}

/// Salsa20 spec §4
pub open spec fn salsa_rowround(s: Seq<u32>) -> Seq<u32> {
    let s = salsa_quarterround(s, 0, 1, 2, 3);
    let s = salsa_quarterround(s, 5, 6, 7, 4);
    let s = salsa_quarterround(s, 10, 11, 8, 9);
    let s = salsa_quarterround(s, 15, 12, 13, 14);
    s
}

/// Salsa20 spec §6: doubleround(x) = rowround(columnround(x))
pub open spec fn salsa_double_round(s: Seq<u32>) -> Seq<u32> {
    salsa_rowround(salsa_columnround(s))
}

pub open spec fn salsa_rounds(s: Seq<u32>, n: nat) -> Seq<u32>
    decreases n,
{
    if n == 0 {
        s
    } else {
        salsa_double_round(salsa_rounds(s, (n - 1) as nat))
    }
}

/// Salsa20 spec §9 layout with the 16-byte HSalsa20 input in the nonce/counter positions:
/// (c0, k0, k1, k2, k3, c1, n0, n1, n2, n3, c2, k4, k5, k6, k7, c3)
pub open spec fn hsalsa20_init(key: Seq<u8>, input: Seq<u8>, consts: Option<(u32, u32, u32, u32)>) -> Seq<u32> {
    let c = sigma(consts);
    let k = words32(key);
    let n = words32(input);
    seq![c.0, k[0], k[1], k[2], k[3], c.1, n[0], n[1], n[2], n[3], c.2, k[4], k[5], k[6], k[7], c.3]
}

/// HSalsa20: 20 rounds, no final addition, output z0, z5, z10, z15, z6, z7, z8, z9
pub open spec fn hsalsa20_rfc(key: Seq<u8>, input: Seq<u8>, consts: Option<(u32, u32, u32, u32)>) -> Seq<u8> {
    let z = salsa_rounds(hsalsa20_init(key, input, consts), 10);
    ser32(seq![z[0], z[5], z[10], z[15], z[6], z[7], z[8], z[9]])
}

// ================================================================================================
// SipHash-2-4
// ================================================================================================
/// addition modulo 2^64
pub open spec fn add64(a: u64, b: u64) -> u64 {
    ((a as nat + b as nat) % 0x1_0000_0000_0000_0000) as u64
}

/// b-bit left rotation of a 64-bit word, 0 < b < 64
pub open spec fn rotl64_spec(x: u64, b: u64) -> u64 {
    (x << b) | (x >> ((64 - b) as u64))
}

pub open spec fn le64(b: Seq<u8>) -> u64 {
    le_nat(b) as u64
}

/// SipRound (paper §2, figure 2.1) on the four state words
pub open spec fn sipround_v(v0: u64, v1: u64, v2: u64, v3: u64) -> (u64, u64, u64, u64) {
    let v0 = add64(v0, v1);
    let v2 = add64(v2, v3);
    let v1 = rotl64_spec(v1, 13);
    let v3 = rotl64_spec(v3, 16);
    let v1 = v1 ^ v0;
    let v3 = v3 ^ v2;
    let v0 = rotl64_spec(v0, 32);
    let v2 = add64(v2, v1);
    let v0 = add64(v0, v3);
    let v1 = rotl64_spec(v1, 17);
    let v3 = rotl64_spec(v3, 21);
    let v1 = v1 ^ v2;
    let v3 = v3 ^ v0;
    let v2 = rotl64_spec(v2, 32);
    (v0, v1, v2, v3)
}

/// SipRound on the state (v0, v1, v2, v3)
pub open spec fn sipround(v: Seq<u64>) -> Seq<u64> {
    let r = sipround_v(v[0], v[1], v[2], v[3]);
    seq![r.0, r.1, r.2, r.3]
}

pub open spec fn siprounds(v: Seq<u64>, n: nat) -> Seq<u64>
    decreases n,
{
    if n == 0 {
        v
    } else {
        sipround(siprounds(v, (n - 1) as nat))
    }
}

/// compression of one message word: v3 ^= m; c = 2 SipRounds; v0 ^= m
pub open spec fn sip_compress(v: Seq<u64>, m: u64) -> Seq<u64> {
    let v = v.update(3, v[3] ^ m);
    let v = siprounds(v, 2);
    v.update(0, v[0] ^ m)
}

/// compression of the first `n` 8-byte little-endian words of `msg`
pub open spec fn sip_absorb(v: Seq<u64>, msg: Seq<u8>, n: nat) -> Seq<u64>
    decreases n,
{
    if n == 0 {
        v
    } else {
        sip_compress(sip_absorb(v, msg, (n - 1) as nat), le64(msg.subrange(8 * (n - 1), 8 * n as int)))
    }
}

/// the final block: the len mod 8 remaining bytes, null bytes, and a last byte encoding len mod 256
pub open spec fn sip_last_block(msg: Seq<u8>) -> Seq<u8> {
    let rem = msg.subrange(8 * (msg.len() / 8) as int, msg.len() as int);
    rem + zeros((7 - rem.len()) as nat) + seq![(msg.len() % 256) as u8]
}

pub open spec fn sip_init(key: Seq<u8>) -> Seq<u64> {
    let k0 = le64(key.subrange(0, 8));
    let k1 = le64(key.subrange(8, 16));
    seq![
        k0 ^ 0x736f6d6570736575u64,
        k1 ^ 0x646f72616e646f6du64,
        k0 ^ 0x6c7967656e657261u64,
        k1 ^ 0x7465646279746573u64,
    ]
}

/// SipHash-2-4 with the 8-byte output serialised little-endian
pub open spec fn siphash24_rfc(key: Seq<u8>, msg: Seq<u8>) -> Seq<u8> {
    let v = sip_init(key);
    let v = sip_absorb(v, msg, msg.len() / 8);
    let v = sip_compress(v, le64(sip_last_block(msg)));
    let v = v.update(2, v[2] ^ 0xffu64);
    let v = siprounds(v, 4);
    nat_to_le((v[0] ^ v[1] ^ v[2] ^ v[3]) as nat, 8)
}

// ================================================================================================
// Published test vectors
// ================================================================================================
/// RFC 8439 §2.1.1
pub proof fn kat_chacha_qr()
    ensures
        chacha_qr(0x11111111, 0x01020304, 0x9b8d6f43, 0x01234567) == (0xea2a92f4u32, 0xcb1cf8ceu32, 0x4581472eu32, 0x5881c4bbu32),
{
    assert(chacha_qr(0x11111111, 0x01020304, 0x9b8d6f43, 0x01234567) == (0xea2a92f4u32, 0xcb1cf8ceu32, 0x4581472eu32, 0x5881c4bbu32)) by (compute);
}

/// Salsa20 spec §3, second example
pub proof fn kat_salsa_qr()
    ensures
        salsa_qr(0x00000001, 0, 0, 0) == (0x08008145u32, 0x00000080u32, 0x00010200u32, 0x20500000u32),
{
    assert(salsa_qr(0x00000001, 0, 0, 0) == (0x08008145u32, 0x00000080u32, 0x00010200u32, 0x20500000u32)) by (compute);
}

/// draft-irtf-cfrg-xchacha-03 §2.2.1 (key 00..1f, input 00:00:00:09:00:00:00:4a:00:00:00:00:31:41:59:27)
pub proof fn kat_hchacha20() {
    assert(hchacha20_rfc(
        seq![0x00u8, 0x01u8, 0x02u8, 0x03u8, 0x04u8, 0x05u8, 0x06u8, 0x07u8, 0x08u8, 0x09u8, 0x0au8, 0x0bu8,
        0x0cu8, 0x0du8, 0x0eu8, 0x0fu8, 0x10u8, 0x11u8, 0x12u8, 0x13u8, 0x14u8, 0x15u8, 0x16u8, 0x17u8,
        0x18u8, 0x19u8, 0x1au8, 0x1bu8, 0x1cu8, 0x1du8, 0x1eu8, 0x1fu8],
        seq![0x00u8, 0x00u8, 0x00u8, 0x09u8, 0x00u8, 0x00u8, 0x00u8, 0x4au8, 0x00u8, 0x00u8, 0x00u8, 0x00u8,
        0x31u8, 0x41u8, 0x59u8, 0x27u8],
        None,
    ) =~= seq![0x82u8, 0x41u8, 0x3bu8, 0x42u8, 0x27u8, 0xb2u8, 0x7bu8, 0xfeu8, 0xd3u8, 0x0eu8, 0x42u8, 0x50u8,
        0x8au8, 0x87u8, 0x7du8, 0x73u8, 0xa0u8, 0xf9u8, 0xe4u8, 0xd5u8, 0x8au8, 0x74u8, 0xa8u8, 0x53u8,
        0xc1u8, 0x2eu8, 0xc4u8, 0x13u8, 0x26u8, 0xd3u8, 0xecu8, 0xdcu8]) by (compute);
}

/// NaCl ("Cryptography in NaCl" §8, tests/core1.c; libsodium test/default/core1.c): firstkey = HSalsa20(shared, 0)
pub proof fn kat_hsalsa20() {
    assert(hsalsa20_rfc(
        seq![0x4au8, 0x5du8, 0x9du8, 0x5bu8, 0xa4u8, 0xceu8, 0x2du8, 0xe1u8, 0x72u8, 0x8eu8, 0x3bu8, 0xf4u8,
        0x80u8, 0x35u8, 0x0fu8, 0x25u8, 0xe0u8, 0x7eu8, 0x21u8, 0xc9u8, 0x47u8, 0xd1u8, 0x9eu8, 0x33u8,
        0x76u8, 0xf0u8, 0x9bu8, 0x3cu8, 0x1eu8, 0x16u8, 0x17u8, 0x42u8],
        seq![0x00u8, 0x00u8, 0x00u8, 0x00u8, 0x00u8, 0x00u8, 0x00u8, 0x00u8, 0x00u8, 0x00u8, 0x00u8, 0x00u8,
        0x00u8, 0x00u8, 0x00u8, 0x00u8],
        None,
    ) =~= seq![0x1bu8, 0x27u8, 0x55u8, 0x64u8, 0x73u8, 0xe9u8, 0x85u8, 0xd4u8, 0x62u8, 0xcdu8, 0x51u8, 0x19u8,
        0x7au8, 0x9au8, 0x46u8, 0xc7u8, 0x60u8, 0x09u8, 0x54u8, 0x9eu8, 0xacu8, 0x64u8, 0x74u8, 0xf2u8,
        0x06u8, 0xc4u8, 0xeeu8, 0x08u8, 0x44u8, 0xf6u8, 0x83u8, 0x89u8]) by (compute);
}

/// SipHash paper, appendix A: key 00..0f, message 00..0e -> a129ca6149be45e5; and the reference implementation's
/// vectors for the message lengths 0, 7, 8, 16 (block boundaries)
pub proof fn kat_siphash24() {
    assert(siphash24_rfc(
        seq![0x00u8, 0x01u8, 0x02u8, 0x03u8, 0x04u8, 0x05u8, 0x06u8, 0x07u8, 0x08u8, 0x09u8, 0x0au8, 0x0bu8,
        0x0cu8, 0x0du8, 0x0eu8, 0x0fu8],
        seq![],
    ) =~= seq![0x31u8, 0x0eu8, 0x0eu8, 0xddu8, 0x47u8, 0xdbu8, 0x6fu8, 0x72u8]) by (compute);
    assert(siphash24_rfc(
        seq![0x00u8, 0x01u8, 0x02u8, 0x03u8, 0x04u8, 0x05u8, 0x06u8, 0x07u8, 0x08u8, 0x09u8, 0x0au8, 0x0bu8,
        0x0cu8, 0x0du8, 0x0eu8, 0x0fu8],
        seq![0x00u8, 0x01u8, 0x02u8, 0x03u8, 0x04u8, 0x05u8, 0x06u8],
    ) =~= seq![0x37u8, 0xd1u8, 0x01u8, 0x8bu8, 0xf5u8, 0x00u8, 0x02u8, 0xabu8]) by (compute);
    assert(siphash24_rfc(
        seq![0x00u8, 0x01u8, 0x02u8, 0x03u8, 0x04u8, 0x05u8, 0x06u8, 0x07u8, 0x08u8, 0x09u8, 0x0au8, 0x0bu8,
        0x0cu8, 0x0du8, 0x0eu8, 0x0fu8],
        seq![0x00u8, 0x01u8, 0x02u8, 0x03u8, 0x04u8, 0x05u8, 0x06u8, 0x07u8],
    ) =~= seq![0x62u8, 0x24u8, 0x93u8, 0x9au8, 0x79u8, 0xf5u8, 0xf5u8, 0x93u8]) by (compute);
    assert(siphash24_rfc(
        seq![0x00u8, 0x01u8, 0x02u8, 0x03u8, 0x04u8, 0x05u8, 0x06u8, 0x07u8, 0x08u8, 0x09u8, 0x0au8, 0x0bu8,
        0x0cu8, 0x0du8, 0x0eu8, 0x0fu8],
        seq![0x00u8, 0x01u8, 0x02u8, 0x03u8, 0x04u8, 0x05u8, 0x06u8, 0x07u8, 0x08u8, 0x09u8, 0x0au8, 0x0bu8,
        0x0cu8, 0x0du8, 0x0eu8],
    ) =~= seq![0xe5u8, 0x45u8, 0xbeu8, 0x49u8, 0x61u8, 0xcau8, 0x29u8, 0xa1u8]) by (compute);
    assert(siphash24_rfc(
        seq![0x00u8, 0x01u8, 0x02u8, 0x03u8, 0x04u8, 0x05u8, 0x06u8, 0x07u8, 0x08u8, 0x09u8, 0x0au8, 0x0bu8,
        0x0cu8, 0x0du8, 0x0eu8, 0x0fu8],
        seq![0x00u8, 0x01u8, 0x02u8, 0x03u8, 0x04u8, 0x05u8, 0x06u8, 0x07u8, 0x08u8, 0x09u8, 0x0au8, 0x0bu8,
        0x0cu8, 0x0du8, 0x0eu8, 0x0fu8],
    ) =~= seq![0xdbu8, 0x9bu8, 0xc2u8, 0x57u8, 0x7fu8, 0xccu8, 0x2au8, 0x3fu8]) by (compute);
}

// ================================================================================================
// ASSUMPTIONS: std items without a vstd specification
// ================================================================================================
/// ASSUMPTION (std documentation of `u32::rotate_left`): "Shifts the bits to the left by a specified amount, n,
/// wrapping the truncated bits to the end of the resulting integer."
pub assume_specification[ u32::rotate_left ](x: u32, n: u32) -> (r: u32)
    ensures
        0 < n < 32 ==> r == rotl32(x, n),
;

/// ASSUMPTION, R2 shim for `x.to_le_bytes()` (u32): the bytes of x in little-endian order. Body = the original call.
#[verifier::external_body]
pub fn shim_u32_to_le_bytes(x: u32) -> (r: [u8; 4])
    ensures
        le_nat(r@) == x as nat,
{
    x.to_le_bytes()
}

// ================================================================================================
// Lemmas
// ================================================================================================
/// a byte sequence is determined by its length and its little-endian value
pub proof fn lemma_nat_to_le_of_le_nat(s: Seq<u8>)
    ensures
        nat_to_le(le_nat(s), s.len()) == s,
    decreases s.len(),
{
    if s.len() == 0 {
        assert(nat_to_le(le_nat(s), 0) =~= s);
    } else {
        let t = s.subrange(1, s.len() as int);
        lemma_nat_to_le_of_le_nat(t);
        let v = le_nat(s);
        assert(v == s[0] as nat + 256 * le_nat(t));
        assert(v % 256 == s[0] as nat);
        assert(v / 256 == le_nat(t));
        assert(nat_to_le(v, s.len()) == seq![(v % 256) as u8] + nat_to_le(v / 256, (s.len() - 1) as nat));
        assert(seq![s[0]] + t =~= s);
    }
}

/// the 16-word state `s` held in 16 local variables
pub open spec fn st16_is(
    s: Seq<u32>,
    x0: u32, x1: u32, x2: u32, x3: u32, x4: u32, x5: u32, x6: u32, x7: u32,
    x8: u32, x9: u32, x10: u32, x11: u32, x12: u32, x13: u32, x14: u32, x15: u32,
) -> bool {
    &&& s.len() == 16
    &&& s[0] == x0 && s[1] == x1 && s[2] == x2 && s[3] == x3
    &&& s[4] == x4 && s[5] == x5 && s[6] == x6 && s[7] == x7
    &&& s[8] == x8 && s[9] == x9 && s[10] == x10 && s[11] == x11
    &&& s[12] == x12 && s[13] == x13 && s[14] == x14 && s[15] == x15
}

/// `s[0..n]` of a sequence of length n is the sequence itself (for `load_u32_le(&key[a..a + 4])`)
pub proof fn lemma_subrange_all()
    ensures
        forall|s: Seq<u8>, n: int| n == s.len() ==> #[trigger] s.subrange(0, n) == s,
{
    assert forall|s: Seq<u8>, n: int| n == s.len() implies #[trigger] s.subrange(0, n) == s by {
        assert(s.subrange(0, n) =~= s);
    }
}

/// 8 words written little-endian one after the other
pub proof fn lemma_ser32_8(out: Seq<u8>, w: Seq<u32>)
    requires
        out.len() == 32,
        w.len() == 8,
        forall|k: int| 0 <= k < 8 ==> le_nat(#[trigger] out.subrange(4 * k, 4 * k + 4)) == w[k] as nat,
    ensures
        out == ser32(w),
{
    let r = ser32(w);
    assert forall|i: int| 0 <= i < 32 implies out[i] == r[i] by {
        let k = i / 4;
        let c = out.subrange(4 * k, 4 * k + 4);
        lemma_nat_to_le_of_le_nat(c);
        assert(c[i % 4] == out[i]);
    }
    assert(out =~= r);
}

/// little-endian value of the 4 bytes at offset 4k
pub open spec fn le4_at(out: Seq<u8>, k: int) -> nat {
    out[4 * k] as nat + 0x100 * (out[4 * k + 1] as nat) + 0x1_0000 * (out[4 * k + 2] as nat) + 0x100_0000 * (out[4 * k + 3] as nat)
}

/// pointwise form of `le_nat` on 4 bytes (broadcast: instantiated on the results of `shim_u32_to_le_bytes`)
pub broadcast proof fn lemma_le_nat_4_pointwise(s: Seq<u8>)
    requires
        s.len() == 4,
    ensures
        #[trigger] le_nat(s) == le4_at(s, 0),
{
    lemma_le_nat_4(s);
}

/// pointwise form of lemma_ser32_8
pub proof fn lemma_ser32_8_pointwise(out: Seq<u8>, w: Seq<u32>)
    requires
        out.len() == 32,
        w.len() == 8,
        le4_at(out, 0) == w[0] as nat,
        le4_at(out, 1) == w[1] as nat,
        le4_at(out, 2) == w[2] as nat,
        le4_at(out, 3) == w[3] as nat,
        le4_at(out, 4) == w[4] as nat,
        le4_at(out, 5) == w[5] as nat,
        le4_at(out, 6) == w[6] as nat,
        le4_at(out, 7) == w[7] as nat,
    ensures
        out == ser32(w),
{
    assert forall|k: int| 0 <= k < 8 implies le_nat(#[trigger] out.subrange(4 * k, 4 * k + 4)) == w[k] as nat by {
        let c = out.subrange(4 * k, 4 * k + 4);
        lemma_le_nat_4(c);
        assert(le_nat(c) == le4_at(out, k));
    }
    lemma_ser32_8(out, w);
}

// ================================================================================================
// SipHash-2-4: proof support
// ================================================================================================
/// the 4-word state `s` held in 4 local variables
pub open spec fn st4_is(s: Seq<u64>, v0: u64, v1: u64, v2: u64, v3: u64) -> bool {
    s.len() == 4 && s[0] == v0 && s[1] == v1 && s[2] == v2 && s[3] == v3
}

pub proof fn lemma_siprounds_2(v: Seq<u64>)
    ensures
        siprounds(v, 2) == sipround(sipround(v)),
{
    reveal_with_fuel(siprounds, 3);
}

pub proof fn lemma_siprounds_4(v: Seq<u64>)
    ensures
        siprounds(v, 4) == sipround(sipround(sipround(sipround(v)))),
{
    reveal_with_fuel(siprounds, 5);
}

/// one more full word absorbed (i = byte offset of the word)
pub proof fn lemma_sip_absorb_step(v: Seq<u64>, msg: Seq<u8>, i: int)
    requires
        0 <= i,
        i % 8 == 0,
        i + 8 <= msg.len(),
    ensures
        (i + 8) / 8 == i / 8 + 1,
        sip_absorb(v, msg, ((i + 8) / 8) as nat) == sip_compress(
            sip_absorb(v, msg, (i / 8) as nat),
            le64(msg.subrange(i, i + 8)),
        ),
{
    let n = ((i + 8) / 8) as nat;
    assert(8 * (n - 1) == i);
    assert(8 * n as int == i + 8);
}

/// byte k of a 64-bit word
pub open spec fn u64_byte(b: u64, k: int) -> u8 {
    ((b >> ((8 * k) as u64)) & 0xff) as u8
}

pub open spec fn u64_bytes(b: u64) -> Seq<u8> {
    Seq::new(8, |k: int| u64_byte(b, k))
}

/// the final block with only the bytes j.. of the remainder filled in
pub open spec fn sip_partial_block(msg: Seq<u8>, j: int) -> Seq<u8> {
    let rem = msg.subrange(8 * (msg.len() / 8) as int, msg.len() as int);
    Seq::new(8, |k: int| if k == 7 { (msg.len() % 256) as u8 } else if j <= k < rem.len() { rem[k] } else { 0u8 })
}

pub proof fn lemma_sip_partial_0(msg: Seq<u8>)
    ensures
        sip_partial_block(msg, 0) == sip_last_block(msg),
{
    assert(sip_partial_block(msg, 0) =~= sip_last_block(msg));
}

/// a 64-bit word is the little-endian value of its bytes
pub proof fn lemma_u64_bytes_le(b: u64)
    ensures
        le_nat(u64_bytes(b)) == b as nat,
{
    let s = u64_bytes(b);
    let b0 = (b >> 0) & 0xff;
    let b1 = (b >> 8) & 0xff;
    let b2 = (b >> 16) & 0xff;
    let b3 = (b >> 24) & 0xff;
    let b4 = (b >> 32) & 0xff;
    let b5 = (b >> 40) & 0xff;
    let b6 = (b >> 48) & 0xff;
    let b7 = (b >> 56) & 0xff;
    assert(b0 < 256 && b1 < 256 && b2 < 256 && b3 < 256 && b4 < 256 && b5 < 256 && b6 < 256 && b7 < 256
        && b == b0 | (b1 << 8) | (b2 << 16) | (b3 << 24) | (b4 << 32) | (b5 << 40) | (b6 << 48) | (b7 << 56)) by (bit_vector)
        requires
            b0 == (b >> 0) & 0xff,
            b1 == (b >> 8) & 0xff,
            b2 == (b >> 16) & 0xff,
            b3 == (b >> 24) & 0xff,
            b4 == (b >> 32) & 0xff,
            b5 == (b >> 40) & 0xff,
            b6 == (b >> 48) & 0xff,
            b7 == (b >> 56) & 0xff,
    ;
    assert(s[0] == b0 as u8 && s[1] == b1 as u8 && s[2] == b2 as u8 && s[3] == b3 as u8);
    assert(s[4] == b4 as u8 && s[5] == b5 as u8 && s[6] == b6 as u8 && s[7] == b7 as u8);
    lemma_or_shift_8(s[0], s[1], s[2], s[3], s[4], s[5], s[6], s[7]);
    lemma_le_nat_8(s);
}

/// `len << 56` has the byte `len mod 256` on top of seven null bytes
pub proof fn lemma_sip_len_word(msg: Seq<u8>, len: usize)
    requires
        len == msg.len(),
    ensures
        u64_bytes(((len as u64) << 56)) == sip_partial_block(msg, (msg.len() % 8) as int),
{
    let l = len as u64;
    let w = l << 56;
    assert forall|k: int| 0 <= k < 8 implies u64_byte(w, k) == sip_partial_block(msg, (msg.len() % 8) as int)[k] by {
        let sh = (8 * k) as u64;
        let y = (w >> sh) & 0xff;
        assert(y == (if sh == 56 { l % 256 } else { 0 }) && y < 256) by (bit_vector)
            requires
                w == l << 56,
                y == (w >> sh) & 0xff,
                sh <= 56,
                sh % 8 == 0,
        ;
    }
    assert(u64_bytes(w) =~= sip_partial_block(msg, (msg.len() % 8) as int));
}

/// OR-ing byte i of the remainder into the word
pub proof fn lemma_sip_or_byte(msg: Seq<u8>, b: u64, i: usize, x: u8)
    requires
        i < msg.len() % 8,
        x == msg[8 * (msg.len() / 8) + i],
        u64_bytes(b) == sip_partial_block(msg, i + 1),
    ensures
        u64_bytes(b | ((x as u64) << ((i * 8) as u64))) == sip_partial_block(msg, i as int),
{
    let sh = (i * 8) as u64;
    let xx = x as u64;
    let nb = b | (xx << sh);
    let yi = (b >> sh) & 0xff;
    assert(u64_bytes(b)[i as int] == 0);
    assert(yi < 256) by (bit_vector)
        requires
            yi == (b >> sh) & 0xff,
    ;
    assert(yi == 0);
    assert forall|k: int| 0 <= k < 8 implies u64_byte(nb, k) == sip_partial_block(msg, i as int)[k] by {
        let kk = (8 * k) as u64;
        let y = (nb >> kk) & 0xff;
        let o = (b >> kk) & 0xff;
        assert(u64_bytes(b)[k] == o as u8);
        assert(y == (if kk == sh { xx } else { o }) && y < 256 && o < 256) by (bit_vector)
            requires
                nb == b | (xx << sh),
                y == (nb >> kk) & 0xff,
                o == (b >> kk) & 0xff,
                yi == (b >> sh) & 0xff,
                yi == 0,
                xx < 256,
                sh < 64,
                kk < 64,
                sh % 8 == 0,
                kk % 8 == 0,
        ;
    }
    assert(u64_bytes(nb) =~= sip_partial_block(msg, i as int));
}

/// initial state from the two loaded key words (the code computes `constant ^ key word`)
pub proof fn lemma_sip_init(key: Seq<u8>, k0: u64, k1: u64)
    requires
        key.len() == 16,
        k0 as nat == le_nat(key.subrange(0, 8)),
        k1 as nat == le_nat(key.subrange(8, 16)),
    ensures
        st4_is(
            sip_init(key),
            0x736f6d6570736575u64 ^ k0,
            0x646f72616e646f6du64 ^ k1,
            0x6c7967656e657261u64 ^ k0,
            0x7465646279746573u64 ^ k1,
        ),
{
    assert(0x736f6d6570736575u64 ^ k0 == k0 ^ 0x736f6d6570736575u64) by (bit_vector);
    assert(0x646f72616e646f6du64 ^ k1 == k1 ^ 0x646f72616e646f6du64) by (bit_vector);
    assert(0x6c7967656e657261u64 ^ k0 == k0 ^ 0x6c7967656e657261u64) by (bit_vector);
    assert(0x7465646279746573u64 ^ k1 == k1 ^ 0x7465646279746573u64) by (bit_vector);
}

/// compression of one word, on the four state words
pub proof fn lemma_sip_compress(s: Seq<u64>, m: u64)
    requires
        s.len() == 4,
    ensures
        ({
            let a = sipround_v(s[0], s[1], s[2], s[3] ^ m);
            let b = sipround_v(a.0, a.1, a.2, a.3);
            st4_is(sip_compress(s, m), b.0 ^ m, b.1, b.2, b.3)
        }),
{
    lemma_siprounds_2(s.update(3, s[3] ^ m));
}

/// finalisation (v2 ^= 0xff, d = 4 SipRounds), on the four state words
pub proof fn lemma_sip_finalize(s: Seq<u64>)
    requires
        s.len() == 4,
    ensures
        ({
            let a = sipround_v(s[0], s[1], s[2] ^ 0xffu64, s[3]);
            let b = sipround_v(a.0, a.1, a.2, a.3);
            let c = sipround_v(b.0, b.1, b.2, b.3);
            let d = sipround_v(c.0, c.1, c.2, c.3);
            st4_is(siprounds(s.update(2, s[2] ^ 0xffu64), 4), d.0, d.1, d.2, d.3)
        }),
{
    lemma_siprounds_4(s.update(2, s[2] ^ 0xffu64));
}

/// vstd's specification of `u64::wrapping_add` is addition modulo 2^64 (lets exec code keep `add64` hidden)
pub broadcast proof fn lemma_wrapping_add_u64(a: u64, b: u64)
    ensures
        #[trigger] vstd::wrapping::u64_specs::wrapping_add(a, b) == add64(a, b),
{
}

/// vstd's specification of `u32::wrapping_add` is addition modulo 2^32
pub broadcast proof fn lemma_wrapping_add_u32(a: u32, b: u32)
    ensures
        #[trigger] vstd::wrapping::u32_specs::wrapping_add(a, b) == add32(a, b),
{
}

// ================================================================================================
// Output lengths (for callers)
// ================================================================================================
pub proof fn lemma_nat_to_le_len(v: nat, len: nat)
    ensures
        nat_to_le(v, len).len() == len,
    decreases len,
{
    if len > 0 {
        lemma_nat_to_le_len(v / 256, (len - 1) as nat);
    }
}

pub proof fn lemma_hsalsa20_len(key: Seq<u8>, input: Seq<u8>, consts: Option<(u32, u32, u32, u32)>)
    ensures
        hsalsa20_rfc(key, input, consts).len() == 32,
{
}

pub proof fn lemma_chacha_rounds_len(s: Seq<u32>, n: nat)
    requires
        s.len() == 16,
    ensures
        chacha_rounds(s, n).len() == 16,
    decreases n,
{
    if n > 0 {
        lemma_chacha_rounds_len(s, (n - 1) as nat);
    }
}

pub proof fn lemma_hchacha20_len(key: Seq<u8>, input: Seq<u8>, consts: Option<(u32, u32, u32, u32)>)
    requires
        key.len() == 32,
        input.len() == 16,
    ensures
        hchacha20_rfc(key, input, consts).len() == 32,
{
    lemma_chacha_rounds_len(hchacha20_init(key, input, consts), 10);
}

pub proof fn lemma_siphash24_len(key: Seq<u8>, msg: Seq<u8>)
    ensures
        siphash24_rfc(key, msg).len() == 8,
{
    let v = sip_init(key);
    let v = sip_absorb(v, msg, msg.len() / 8);
    let v = sip_compress(v, le64(sip_last_block(msg)));
    let v = v.update(2, v[2] ^ 0xffu64);
    let v = siprounds(v, 4);
    lemma_nat_to_le_len((v[0] ^ v[1] ^ v[2] ^ v[3]) as nat, 8);
}

} // verus!
