//@ props=*
//! Curve25519 / Ed25519 interface-level specification (group arithmetic is third-party: curve25519-dalek).
use vstd::prelude::*;
use crate::verif_spec::*;

verus! {

/// RFC 7748 §5 clamping of a 32-byte scalar
pub open spec fn spec_clamp(n: Seq<u8>) -> Seq<u8> {
    n.update(0, n[0] & 248).update(31, (n[31] & 127) | 64)
}

/// RFC 7748 X25519 Montgomery ladder on the *integer* scalar `k` and the u-coordinate encoding `u`
/// (top bit of u ignored, non-canonical values reduced) — computed by curve25519-dalek: assumed.
pub uninterp spec fn x25519_ladder(k: nat, u: Seq<u8>) -> Seq<u8>;

pub broadcast axiom fn axiom_x25519_len(k: nat, u: Seq<u8>)
    ensures
        #[trigger] x25519_ladder(k, u).len() == 32,
;

/// X25519(n, p) of RFC 7748 = ladder on the clamped scalar
pub open spec fn x25519(n: Seq<u8>, p: Seq<u8>) -> Seq<u8> {
    x25519_ladder(le_nat(spec_clamp(n)), p)
}

pub open spec fn basepoint9() -> Seq<u8> {
    seq![9u8] + zeros(31)
}

pub open spec fn x25519_base(n: Seq<u8>) -> Seq<u8> {
    x25519(n, basepoint9())
}

} // verus!
