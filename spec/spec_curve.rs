//@ props=*
//! Curve25519 / Ed25519 interface-level specification (group arithmetic is third-party: curve25519-dalek).
use vstd::prelude::*;
use crate::verif_spec::*;

verus! {

/// RFC 7748 §5 clamping of a 32-byte scalar
pub open spec fn spec_clamp(n: Seq<u8>) -> Seq<u8> {
    n.update(0, n[0] & 248).update(31, (n[31] & 127) | 64)
}

/// RFC 7748 X25519 Montgomery ladder on the *integer* scalar `k` and the u-coordinate encoding `u`
/// (top bit of u ignored, non-canonical values reduced) — computed by curve25519-dalek: assumed.
pub uninterp spec fn x25519_ladder(k: nat, u: Seq<u8>) -> Seq<u8>;

pub broadcast axiom fn axiom_x25519_len(k: nat, u: Seq<u8>)
    ensures
        #[trigger] x25519_ladder(k, u).len() == 32,
;

/// X25519(n, p) of RFC 7748 = ladder on the clamped scalar
pub open spec fn x25519(n: Seq<u8>, p: Seq<u8>) -> Seq<u8> {
    x25519_ladder(le_nat(spec_clamp(n)), p)
}

pub open spec fn basepoint9() -> Seq<u8> {
    seq![9u8] + zeros(31)
}

pub open spec fn x25519_base(n: Seq<u8>) -> Seq<u8> {
    x25519(n, basepoint9())
}

} // verus!

verus! {

/// key-exchange session keys (libsodium crypto_kx): BLAKE2b-64(q || client_pk || server_pk)
pub open spec fn kx_keys(q: Seq<u8>, client_pk: Seq<u8>, server_pk: Seq<u8>) -> Seq<u8> {
    crate::spec_hash::blake2b_spec(64, Seq::<u8>::empty(), zeros(16), zeros(16), Seq::<u8>::empty() + q + client_pk + server_pk)
}

/// Curve fact (assumed): Diffie-Hellman commutes for honestly generated pairs
pub broadcast axiom fn axiom_x25519_commutes(a: Seq<u8>, b: Seq<u8>)
    ensures
        #[trigger] x25519(a, x25519_base(b)) == x25519(b, x25519_base(a)),
;

/// C05: the client's (rx, tx) are the server's (tx, rx) for honest key pairs — a theorem over the two session-key contracts
pub proof fn lemma_kx_agree(csk: Seq<u8>, ssk: Seq<u8>)
    ensures
        ({
            let cpk = x25519_base(csk);
            let spk = x25519_base(ssk);
            kx_keys(x25519(csk, spk), cpk, spk) == kx_keys(x25519(ssk, cpk), cpk, spk)
        }),
{
    broadcast use axiom_x25519_commutes;
}

} // verus!
