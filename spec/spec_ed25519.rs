//@ props=C04,C06,C08,C13,C16
//! Ed25519 / Ed25519ph specification written from RFC 8032 §5.1 (5.1.5 key generation, 5.1.6 sign, 5.1.7 verify)
//! and libsodium's key layout (secret key = seed || public key), over `sha512_spec` (uninterpreted) and the
//! ABSTRACT group of ext_dalek_ed.rs (ed_basemul, ed_mul, ed_add, ed_neg, ed_compress, ed_decompress, ...).
use vstd::prelude::*;
use crate::verif_spec::*;
use crate::spec_curve::*;
use crate::spec_hash::*;
use crate::ext_dalek::*;
use crate::ext_dalek_ed::*;

verus! {

/// RFC 8032 §2: dom2(x = 1, y = "") = "SigEd25519 no Ed25519 collisions" || octet(1) || octet(OLEN("")) — Ed25519ph
pub open spec fn dom2_ph() -> Seq<u8> {
    seq![
        0x53u8, 0x69u8, 0x67u8, 0x45u8, 0x64u8, 0x32u8, 0x35u8, 0x35u8, 0x31u8, 0x39u8, 0x20u8, 0x6eu8, 0x6fu8, 0x20u8,
        0x45u8, 0x64u8, 0x32u8, 0x35u8, 0x35u8, 0x31u8, 0x39u8, 0x20u8, 0x63u8, 0x6fu8, 0x6cu8, 0x6cu8, 0x69u8, 0x73u8,
        0x69u8, 0x6fu8, 0x6eu8, 0x73u8, 0x01u8, 0x00u8,
    ]
}

/// dom2 prefix: empty for pure Ed25519, dom2(1, "") for Ed25519ph
pub open spec fn ed25519_dom(prehashed: bool) -> Seq<u8> {
    if prehashed {
        dom2_ph()
    } else {
        Seq::<u8>::empty()
    }
}

/// §5.1.5 steps 1-3: the secret scalar a = le(clamp(SHA-512(seed)[0..32]))   (an integer in [2^254, 2^255), NOT reduced)
pub open spec fn ed25519_secret_scalar(seed: Seq<u8>) -> nat {
    le_nat(spec_clamp(sha512_spec(seed).subrange(0, 32)))
}

/// §5.1.5 step 4: public key = ENC([a]B)
pub open spec fn ed25519_public(seed: Seq<u8>) -> Seq<u8> {
    ed_compress(ed_basemul(ed25519_secret_scalar(seed)))
}

/// libsodium's 64-byte secret key: seed || public key
pub open spec fn ed25519_secret_key(seed: Seq<u8>) -> Seq<u8> {
    seed + ed25519_public(seed)
}

/// §5.1.6 with PH already applied (`m` = PH(M)): signature R || S under the 64-byte secret key `sk` = seed || A.
/// As in libsodium the public key A hashed in step 4 is the second half of `sk`.
pub open spec fn ed25519_sign_raw(sk: Seq<u8>, m: Seq<u8>, prehashed: bool) -> Seq<u8> {
    let h = sha512_spec(sk.subrange(0, 32));
    let a = le_nat(spec_clamp(h.subrange(0, 32)));
    let prefix = h.subrange(32, 64);
    let a_enc = sk.subrange(32, 64);
    let dom = ed25519_dom(prehashed);
    let r = le_nat(sha512_spec(dom + prefix + m)) % ed25519_l();
    let big_r = ed_compress(ed_basemul(r));
    let k = le_nat(sha512_spec(dom + big_r + a_enc + m)) % ed25519_l();
    let s = (r + k * a) % ed25519_l();
    big_r + nat_to_le(s, 32)
}

/// pure Ed25519 (PH = identity)
pub open spec fn ed25519_sign(sk: Seq<u8>, msg: Seq<u8>) -> Seq<u8> {
    ed25519_sign_raw(sk, msg, false)
}

/// Ed25519ph (PH = SHA-512)
pub open spec fn ed25519ph_sign(sk: Seq<u8>, msg: Seq<u8>) -> Seq<u8> {
    ed25519_sign_raw(sk, sha512_spec(msg), true)
}

/// §5.1.7 with PH already applied, in libsodium's strict form: S canonical (< L), R and A decode, neither has small
/// order, and the cofactorless group equation [S]B - [k]A == R holds.
pub open spec fn ed25519_verify_raw(sig: Seq<u8>, m: Seq<u8>, pk: Seq<u8>, prehashed: bool) -> bool {
    let r_enc = sig.subrange(0, 32);
    let s = le_nat(sig.subrange(32, 64));
    let k = le_nat(sha512_spec(ed25519_dom(prehashed) + r_enc + pk + m)) % ed25519_l();
    &&& s < ed25519_l()
    &&& ed_decompress(r_enc).is_some()
    &&& ed_decompress(pk).is_some()
    &&& !ed_small_order(ed_decompress(r_enc).unwrap())
    &&& !ed_small_order(ed_decompress(pk).unwrap())
    &&& ed_add(ed_mul(k, ed_neg(ed_decompress(pk).unwrap())), ed_basemul(s)) == ed_decompress(r_enc).unwrap()
}

pub open spec fn ed25519_verify_ok(sig: Seq<u8>, msg: Seq<u8>, pk: Seq<u8>) -> bool {
    ed25519_verify_raw(sig, msg, pk, false)
}

pub open spec fn ed25519ph_verify_ok(sig: Seq<u8>, msg: Seq<u8>, pk: Seq<u8>) -> bool {
    ed25519_verify_raw(sig, sha512_spec(msg), pk, true)
}

/// libsodium crypto_sign_ed25519_sk_to_curve25519: clamp(SHA-512(ed_sk[0..32])[0..32])
pub open spec fn ed25519_sk_to_x25519(ed_sk: Seq<u8>) -> Seq<u8> {
    spec_clamp(sha512_spec(ed_sk.subrange(0, 32)).subrange(0, 32))
}

/// libsodium crypto_sign_ed25519_pk_to_curve25519 (as implemented on dalek): Montgomery u of the decoded point;
/// None iff the encoding does not decode
pub open spec fn ed25519_pk_to_x25519(ed_pk: Seq<u8>) -> Option<Seq<u8>> {
    match ed_decompress(ed_pk) {
        Some(p) => Some(ed_to_montgomery(p)),
        None => None,
    }
}

// ---- lemmas ---------------------------------------------------------------------------------------
pub proof fn lemma_clamp_byte_idempotent(b0: u8, b31: u8)
    ensures
        (b0 & 248) & 248 == b0 & 248,
        ((((b31 & 127) | 64) & 127) | 64) == (b31 & 127) | 64,
{
    assert((b0 & 248) & 248 == b0 & 248) by (bit_vector);
    assert(((((b31 & 127) | 64) & 127) | 64) == (b31 & 127) | 64) by (bit_vector);
}

pub proof fn lemma_clamp_idempotent(n: Seq<u8>)
    requires
        n.len() == 32,
    ensures
        spec_clamp(spec_clamp(n)) == spec_clamp(n),
{
    lemma_clamp_byte_idempotent(n[0], n[31]);
    assert(spec_clamp(spec_clamp(n)) =~= spec_clamp(n));
}

/// scalar arithmetic mod L as dalek performs it equals the RFC's (r + k*a) mod L
pub proof fn lemma_s_mod_l(r: nat, k: nat, a: nat)
    ensures
        ((k * (a % ed25519_l())) % ed25519_l() + r) % ed25519_l() == (r + k * a) % ed25519_l(),
{
    let l = ed25519_l() as int;
    assert(l > 0);
    vstd::arithmetic::div_mod::lemma_mul_mod_noop_right(k as int, a as int, l);
    vstd::arithmetic::div_mod::lemma_add_mod_noop_right(r as int, (k * (a % ed25519_l())) as int, l);
    vstd::arithmetic::div_mod::lemma_add_mod_noop_right(r as int, (k * a) as int, l);
}

/// C13 (consistent pair): for an honestly generated Ed25519 key pair the converted public key is the X25519
/// base-point multiple of the converted secret key  (from the curve axioms of ext_dalek_ed.rs)
pub proof fn lemma_converted_pair_consistent(seed: Seq<u8>)
    requires
        seed.len() == 32,
    ensures
        ed25519_pk_to_x25519(ed25519_public(seed)) == Some(x25519_base(ed25519_sk_to_x25519(ed25519_secret_key(seed)))),
{
    broadcast use axiom_ed_decompress_compress, axiom_ed_basemul_to_montgomery, axiom_sha512_len;
    let sk = ed25519_secret_key(seed);
    assert(sk.subrange(0, 32) =~= seed);
    let c = spec_clamp(sha512_spec(seed).subrange(0, 32));
    lemma_clamp_idempotent(sha512_spec(seed).subrange(0, 32));
}

pub proof fn lemma_nat_to_le_len(v: nat, n: nat)
    ensures
        nat_to_le(v, n).len() == n,
    decreases n,
{
    if n > 0 {
        lemma_nat_to_le_len(v / 256, (n - 1) as nat);
    }
}

pub proof fn lemma_le_nat_of_nat_to_le(v: nat, n: nat)
    requires
        v < pow256(n),
    ensures
        le_nat(nat_to_le(v, n)) == v,
    decreases n,
{
    if n == 0 {
        assert(nat_to_le(v, 0).len() == 0);
    } else {
        let s = nat_to_le(v, n);
        let t = nat_to_le(v / 256, (n - 1) as nat);
        reveal_with_fuel(pow256, 2);
        assert(pow256(n) == 256 * pow256((n - 1) as nat));
        lemma_le_nat_of_nat_to_le(v / 256, (n - 1) as nat);
        lemma_nat_to_le_len(v / 256, (n - 1) as nat);
        assert(s =~= seq![(v % 256) as u8] + t);
        assert(s.subrange(1, s.len() as int) =~= t);
        assert(s[0] == (v % 256) as u8);
    }
}

/// C06 "every honest signature verifies": a signature produced by §5.1.6 under an honestly generated key pair
/// satisfies the §5.1.7 predicate, in both modes — a theorem over the sign/verify SPECIFICATIONS (which the code is
/// proved against) and the group laws assumed in ext_dalek_ed.rs. The two side conditions exclude the (probability
/// 2^-252) nonce r = 0 mod L, for which R is the identity and libsodium/RFC-strict verifiers reject, and a = 0 mod L
/// (impossible for a clamped scalar; not proved here).
pub proof fn lemma_honest_signature_verifies(seed: Seq<u8>, m: Seq<u8>, prehashed: bool)
    requires
        seed.len() == 32,
        ed25519_secret_scalar(seed) % ed25519_l() != 0,
        le_nat(sha512_spec(ed25519_dom(prehashed) + sha512_spec(seed).subrange(32, 64) + m)) % ed25519_l() != 0,
    ensures
        ed25519_verify_raw(ed25519_sign_raw(ed25519_secret_key(seed), m, prehashed), m, ed25519_public(seed), prehashed),
{
    broadcast use axiom_ed_compress_len, axiom_ed_decompress_compress, axiom_ed_basemul_mod_l, axiom_sha512_len;
    let l = ed25519_l();
    let sk = ed25519_secret_key(seed);
    let pk = ed25519_public(seed);
    assert(sk.subrange(0, 32) =~= seed);
    assert(sk.subrange(32, 64) =~= pk);
    let a = ed25519_secret_scalar(seed);
    let dom = ed25519_dom(prehashed);
    let r = le_nat(sha512_spec(dom + sha512_spec(seed).subrange(32, 64) + m)) % l;
    let big_r = ed_compress(ed_basemul(r));
    let k = le_nat(sha512_spec(dom + big_r + pk + m)) % l;
    let s = (r + k * a) % l;
    let sig = ed25519_sign_raw(sk, m, prehashed);
    assert(sig == big_r + nat_to_le(s, 32));
    lemma_nat_to_le_len(s, 32);
    assert(sig.subrange(0, 32) =~= big_r);
    assert(sig.subrange(32, 64) =~= nat_to_le(s, 32));
    // S is canonical and decodes to itself
    assert(pow256(16) == 0x1_0000_0000_0000_0000_0000_0000_0000_0000nat) by (compute_only);
    assert(pow256(32) == pow256(16) * pow256(16)) by (compute_only);
    assert(l < pow256(32)) by (nonlinear_arith)
        requires
            pow256(32) == pow256(16) * pow256(16),
            pow256(16) == 0x1_0000_0000_0000_0000_0000_0000_0000_0000nat,
            l == 0x1000_0000_0000_0000_0000_0000_0000_0000nat * 0x1000_0000_0000_0000_0000_0000_0000_0000nat / 16
                + 27742317777372353535851937790883648493nat,
    ;
    assert(s < l) by (nonlinear_arith)
        requires
            s == (r + k * a) % l,
            l > 0,
    ;
    lemma_le_nat_of_nat_to_le(s, 32);
    // R = [r]B and A = [a]B decode, neither has small order
    axiom_ed_basemul_small_order(r);
    axiom_ed_basemul_small_order(a);
    vstd::arithmetic::div_mod::lemma_mod_twice(le_nat(sha512_spec(dom + sha512_spec(seed).subrange(32, 64) + m)) as int, l as int);
    // group equation: [k](-[a]B) + [s]B = -[k*a]B + ([r]B + [k*a]B) = [r]B
    axiom_ed_mul_neg_basemul(k, a);
    assert(ed_basemul(s) == ed_basemul(r + k * a));
    axiom_ed_basemul_add(r, k * a);
    axiom_ed_cancel(ed_basemul(k * a), ed_basemul(r));
}

} // verus!
