//@ props=C03,C09,C10
//! Assumed shims (rule R2: the body is the ORIGINAL expression) used by contracts/gap_api.vc.  Every item in this file is an
//! ASSUMPTION and is listed in the evidence (`trusted_base`).
use vstd::prelude::*;

verus! {

// ---- "allowed panic" shims -------------------------------------------------------------------------------------
// `From::from` cannot carry a precondition.  Two `From` impls of the crate panic on values outside their domain
// (`From<u8> for dryocstream::Tag`: bits outside 0x03; `From<u32> for PasswordHashAlgorithm`: anything but 1, 2).  The
// PANIC PATH is not verified; what IS verified is every path that RETURNS: if `expect` returns, the value was Some and is the
// one returned; `panic!` does not return.  The contracts of the two units therefore state the domain as a postcondition
// (`returns ==> argument in domain`), which is the precondition a caller has to establish to stay panic-free.
// Neither impl has a caller inside the crate.

/// R2 shim for `<Option>.expect(msg)`
#[verifier::external_body]
pub fn shim_expect_some<T>(o: Option<T>, msg: &str) -> (v: T)
    ensures
        o is Some,
        v == o->Some_0,
{
    o.expect(msg)
}

/// R2 shim for `panic!("invalid password hash algorithm type: {}", num)`
#[verifier::external_body]
pub fn shim_panic_invalid_algorithm(num: u32) -> (v: crate::classic::crypto_pwhash::PasswordHashAlgorithm)
    ensures
        false,
{
    panic!("invalid password hash algorithm type: {}", num)
}

// ---- zeroize of the secret-stream state (derive(Zeroize) on `State { k: [u8; 32], nonce: [u8; 12] }`) ----------
/// R2 shim for `self.state.zeroize()` inside `Drop for DryocStream`.  ASSUMPTION (zeroize crate, derive on two byte
/// arrays): both arrays are overwritten with zeros; writing zeros into fixed arrays neither unwinds nor opens invariants
/// (Verus demands both of everything `Drop::drop` calls).
#[verifier::external_body]
pub fn shim_state_zeroize(s: &mut crate::classic::crypto_secretstream_xchacha20poly1305::State)
    ensures
        final(s).spec_k() == crate::verif_spec::zeros(32),
        final(s).spec_nonce() == crate::verif_spec::zeros(12),
    opens_invariants none
    no_unwind
{
    use zeroize::Zeroize;
    s.zeroize()
}

} // verus!
