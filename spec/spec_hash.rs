//@ props=*
//! Interface-level specification functions for hashes / cores. A function that is `uninterp` here is an
//! ASSUMPTION (third-party code, or a primitive whose in-crate proof is not (yet) closed); where a proof of the
//! real dryoc function against the standard exists, the function is defined by the RFC-level definition.
use vstd::prelude::*;
use crate::verif_spec::*;

verus! {

/// SHA-512 (FIPS 180-4) — computed by the third-party `sha2` crate: assumed.
pub uninterp spec fn sha512_spec(msg: Seq<u8>) -> Seq<u8>;

pub broadcast axiom fn axiom_sha512_len(msg: Seq<u8>)
    ensures
        #[trigger] sha512_spec(msg).len() == 64,
;

/// BLAKE2b (RFC 7693) with libsodium's salt/personal parameter block, digest length `outlen`: the definition written
/// from RFC 7693 in spec_blake2b.rs (the real software BLAKE2b is proved equal to it; pinned by RFC/reference KATs)
pub open spec fn blake2b_spec(outlen: nat, key: Seq<u8>, salt: Seq<u8>, personal: Seq<u8>, msg: Seq<u8>) -> Seq<u8> {
    crate::spec_blake2b::blake2b_rfc(outlen, key, salt, personal, msg)
}

/// HSalsa20(key, input16, constants) — Salsa20 core without the final addition, words 0,5,10,15,6,7,8,9:
/// the definition written from the Salsa20 specification in spec_cores.rs (the real function is proved equal to it)
pub open spec fn hsalsa20_spec(key: Seq<u8>, input: Seq<u8>, consts: Option<(u32, u32, u32, u32)>) -> Seq<u8> {
    crate::spec_cores::hsalsa20_rfc(key, input, consts)
}

/// HChaCha20(key, input16, constants) — draft-irtf-cfrg-xchacha §2.2 (definition in spec_cores.rs)
pub open spec fn hchacha20_spec(key: Seq<u8>, input: Seq<u8>, consts: Option<(u32, u32, u32, u32)>) -> Seq<u8> {
    crate::spec_cores::hchacha20_rfc(key, input, consts)
}

/// SipHash-2-4 (Aumasson–Bernstein) 8-byte output (definition in spec_cores.rs)
pub open spec fn siphash24_spec(key: Seq<u8>, msg: Seq<u8>) -> Seq<u8> {
    crate::spec_cores::siphash24_rfc(key, msg)
}

/// HMAC-SHA-512-256 (RFC 2104 over SHA-512, truncated to 32 bytes), key zero-padded to the 128-byte block.
pub open spec fn hmac_pad(key: Seq<u8>, pad: u8) -> Seq<u8> {
    Seq::new(128, |i: int| if i < key.len() { key[i] ^ pad } else { pad })
}

pub open spec fn hmac_sha512_spec(key: Seq<u8>, msg: Seq<u8>) -> Seq<u8> {
    sha512_spec(hmac_pad(key, 0x5c) + sha512_spec(hmac_pad(key, 0x36) + msg))
}

pub open spec fn hmac_sha512_256_spec(key: Seq<u8>, msg: Seq<u8>) -> Seq<u8> {
    hmac_sha512_spec(key, msg).subrange(0, 32)
}

} // verus!
