//@ props=C01,C02,C03,C04,C07,C08,C17
//! Poly1305 (RFC 8439 §2.5) as a mathematical function of (key, message).
use vstd::prelude::*;
use crate::verif_spec::*;

verus! {

/// 2^130 - 5
pub open spec fn poly_p() -> nat {
    (0x4_0000_0000_0000_0000_0000_0000_0000_0000nat - 5) as nat
}

/// r = le(key[0..16]) clamped (RFC 8439 §2.5: clear top 4 bits of bytes 3,7,11,15 and low 2 bits of bytes 4,8,12)
pub open spec fn poly_r(key: Seq<u8>) -> nat {
    ((le_nat(key.subrange(0, 16)) as u128) & 0x0ffffffc_0ffffffc_0ffffffc_0fffffffu128) as nat
}

pub open spec fn poly_s(key: Seq<u8>) -> nat {
    le_nat(key.subrange(16, 32))
}

/// accumulator after absorbing `msg` block by block: a = ((a + le(block) + 2^(8*|block|)) * r) mod p
pub open spec fn poly_acc(r: nat, acc: nat, msg: Seq<u8>) -> nat
    decreases msg.len(),
{
    if msg.len() == 0 {
        acc
    } else {
        let n = if msg.len() < 16 { msg.len() as int } else { 16 };
        let blk = le_nat(msg.subrange(0, n)) + pow256(n as nat);
        poly_acc(r, ((acc + blk) * r) % poly_p(), msg.subrange(n, msg.len() as int))
    }
}

pub open spec fn poly1305_tag_nat(key: Seq<u8>, msg: Seq<u8>) -> nat {
    (poly_acc(poly_r(key), 0, msg) + poly_s(key)) % pow256(16)
}

/// the 16 tag bytes: the unique sequence of length 16 whose little-endian value is the tag
pub open spec fn poly1305_spec(key: Seq<u8>, msg: Seq<u8>) -> Seq<u8> {
    nat_to_le(poly1305_tag_nat(key, msg), 16)
}

} // verus!

verus! {

pub proof fn lemma_nat_to_le_len(v: nat, len: nat)
    ensures
        nat_to_le(v, len).len() == len,
    decreases len,
{
    if len > 0 {
        lemma_nat_to_le_len(v / 256, (len - 1) as nat);
    }
}

pub proof fn lemma_poly1305_spec_len(key: Seq<u8>, msg: Seq<u8>)
    ensures
        poly1305_spec(key, msg).len() == 16,
{
    lemma_nat_to_le_len(poly1305_tag_nat(key, msg), 16);
}

} // verus!
