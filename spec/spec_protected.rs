//@ props=C14,C19
//! Specification vocabulary for src/protected.rs (C14 page rights / locks / guard pages, C19 refused lock).
//!
//! WHAT IS AND IS NOT CLAIMED.  The operating system's page tables are outside the view of any program
//! verifier.  The kernel is therefore modelled by *uninterpreted* predicates; the only way verified code can
//! learn one of them is the (assumed) postcondition of a libc shim in `ext_libc.rs`:
//!   * `*_called(..)`      : the request was issued with exactly these arguments (whatever the kernel answered);
//!   * `kernel_*(..)`      : the request was issued AND the kernel answered 0 (= success).
//! Nothing guarantees success of any call, so "the k-th and every later lock request is refused" is simply
//! every path through the verified functions (C19).  What the contracts decide is the SYSCALL-ARGUMENT part
//! of C14: the right address, a length that covers every page holding the data, the right protection.
use vstd::prelude::*;

verus! {

// ---- the kernel, as far as the program can know it ------------------------------------------------------
/// `mprotect(addr, len, prot)` was called (answer unknown)
pub uninterp spec fn mprotect_called(addr: int, len: int, prot: int) -> bool;

/// `mprotect(addr, len, prot)` was called and returned 0
pub uninterp spec fn kernel_prot_set(addr: int, len: int, prot: int) -> bool;

/// `mlock(addr, len)` was called and returned 0
pub uninterp spec fn kernel_locked(addr: int, len: int) -> bool;

/// `munlock(addr, len)` was called (answer unknown)
pub uninterp spec fn munlock_called(addr: int, len: int) -> bool;

/// `munlock(addr, len)` was called and returned 0
pub uninterp spec fn kernel_unlocked(addr: int, len: int) -> bool;

/// `free(addr)` was called
pub uninterp spec fn freed(addr: int) -> bool;

/// `posix_memalign(&out, align, size)` returned 0 with `out == addr`
pub uninterp spec fn kernel_allocated(addr: int, align: int, size: int) -> bool;

/// The page size P reported by `sysconf(_SC_PAGESIZE)`; NOT fixed, only assumed > 0 (see `shim_pagesize`).
pub uninterp spec fn page_size() -> int;

/// POSIX protection bits (values of the libc crate on every unix target dryoc supports)
pub open spec fn prot_none() -> int { 0 }
pub open spec fn prot_read() -> int { 1 }
pub open spec fn prot_rw() -> int { (1i32 | 2i32) as int }   // PROT_READ | PROT_WRITE (= 3)

/// Start address of a slice.  MODELLING LIMIT: Verus has no object identity for safe references — a `&[T]`
/// is a mathematical value determined by its contents (vstd `axiom_slice_ext_equal`).  The "address" is
/// therefore an uninterpreted function of the slice VALUE: the contracts identify the region handed to the
/// kernel as "the slice whose contents are the container's contents at the time of the call".  Only equalities
/// between such terms (and the offsets computed by the allocator from a raw pointer) are ever used.
pub uninterp spec fn seq_addr<T>(s: Seq<T>) -> int;

pub open spec fn slice_addr<T>(s: &[T]) -> int {
    seq_addr(s@)
}

// ---- page arithmetic ------------------------------------------------------------------------------------
/// number of P-byte pages spanned by `n` bytes that start on a page boundary:  ceil(n / P)
pub open spec fn pages(n: int, p: int) -> int {
    (n + p - 1) / p
}

/// the pages spanned by `len` bytes from a page-aligned address include every page holding `n` data bytes
pub open spec fn covers(len: int, n: int, p: int) -> bool {
    pages(len, p) >= pages(n, p)
}

/// an mprotect request for `prot` that covers the `n` data bytes at `addr` was ISSUED
pub open spec fn prot_requested(addr: int, n: nat, prot: int) -> bool {
    n == 0 || exists|len: int| #[trigger] mprotect_called(addr, len, prot) && covers(len, n as int, page_size())
}

/// ... was issued and GRANTED
pub open spec fn prot_granted(addr: int, n: nat, prot: int) -> bool {
    n == 0 || exists|len: int| #[trigger] kernel_prot_set(addr, len, prot) && covers(len, n as int, page_size())
}

pub open spec fn lock_granted(addr: int, n: nat) -> bool {
    n == 0 || exists|len: int| #[trigger] kernel_locked(addr, len) && covers(len, n as int, page_size())
}

pub open spec fn unlock_requested(addr: int, n: nat) -> bool {
    n == 0 || exists|len: int| #[trigger] munlock_called(addr, len) && covers(len, n as int, page_size())
}

pub open spec fn unlock_granted(addr: int, n: nat) -> bool {
    n == 0 || exists|len: int| #[trigger] kernel_unlocked(addr, len) && covers(len, n as int, page_size())
}

/// `_page_round` of the source: the next multiple of P strictly above `size` (a full extra page if `size` is
/// already a multiple — wasteful but safe)
pub open spec fn page_round(size: int, p: int) -> int {
    size + (p - size % p)
}

/// facts about `page_round` used by the allocator contracts: the result is a multiple of P strictly above
/// `size`, at most one page beyond the end of the last page that holds data
pub proof fn lemma_page_round(size: int, p: int)
    requires
        size >= 0,
        p > 0,
    ensures
        page_round(size, p) % p == 0,
        size < page_round(size, p) <= size + p,
        pages(size, p) * p <= page_round(size, p) <= pages(size, p) * p + p,
        pages(page_round(size, p), p) * p == page_round(size, p),
{
    let q = size / p;
    let r = size % p;
    vstd::arithmetic::div_mod::lemma_fundamental_div_mod(size, p);
    vstd::arithmetic::div_mod::lemma_mod_bound(size, p);  // 0 <= r < p
    assert(p * q + p == p * (q + 1)) by (nonlinear_arith);
    assert(page_round(size, p) == p * (q + 1));
    vstd::arithmetic::div_mod::lemma_mod_multiples_basic(q + 1, p);
    assert(p * (q + 1) == (q + 1) * p) by (nonlinear_arith);
    // pages(size) is q (r == 0) or q + 1
    vstd::arithmetic::div_mod::lemma_fundamental_div_mod_converse(size + p - 1, p, if r == 0 { q } else { q + 1 }, if r == 0 { p - 1 } else { r - 1 });
    assert(p * q == q * p) by (nonlinear_arith);
    // pages(page_round) == q + 1
    vstd::arithmetic::div_mod::lemma_fundamental_div_mod_converse(p * (q + 1) + p - 1, p, q + 1, p - 1);
}

// ---- C19 ------------------------------------------------------------------------------------------------
/// "the operating system will grant the lock request".  Uninterpreted and established by NOTHING: it is the
/// precondition of the functions that are allowed to panic on a refused lock (their signature has no
/// `Result`).  A call to one of them from a `Result`-returning function therefore fails verification — that
/// is exactly a place where a refused lock becomes a panic instead of an `Err`.
pub uninterp spec fn lock_will_succeed() -> bool;

} // verus!
