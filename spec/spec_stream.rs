//@ props=C02,C03,C04,C17
//! libsodium crypto_secretstream_xchacha20poly1305 as mathematical functions of the stream state
//! (k: 32 bytes, nonce: 12 bytes = 4-byte LE message counter || 8-byte inonce).
use vstd::prelude::*;
use crate::verif_spec::*;
use crate::verif_extern::*;
use crate::spec_poly1305::*;
use crate::spec_hash::*;

verus! {

pub open spec fn cc_block(k: Seq<u8>, n: Seq<u8>, pos: int, len: nat) -> Seq<u8> {
    Seq::new(len, |i: int| chacha20_stream(k, n, pos + i))
}

pub broadcast proof fn lemma_cc_xor_zeros(k: Seq<u8>, n: Seq<u8>, off: int, len: nat)
    ensures
        #[trigger] cc_xor(zeros(len), k, n, off) == cc_block(k, n, off, len),
{
    assert forall|i: int| 0 <= i < len implies #[trigger] cc_xor(zeros(len), k, n, off)[i] == cc_block(k, n, off, len)[i] by {
        let b = chacha20_stream(k, n, off + i);
        assert(0u8 ^ b == b) by (bit_vector);
    }
    assert(cc_xor(zeros(len), k, n, off) =~= cc_block(k, n, off, len));
}

/// stream state after init: k = HChaCha20(key, header[0..16]), counter = 1, inonce = header[16..24]
pub open spec fn stream_init_k(key: Seq<u8>, header: Seq<u8>) -> Seq<u8> {
    hchacha20_spec(key, header.subrange(0, 16), None)
}

pub open spec fn stream_init_nonce(header: Seq<u8>) -> Seq<u8> {
    seq![1u8, 0u8, 0u8, 0u8] + header.subrange(16, 24)
}

/// one-time Poly1305 key: keystream block 0, first 32 bytes
pub open spec fn stream_otk(k: Seq<u8>, n: Seq<u8>) -> Seq<u8> {
    cc_block(k, n, 0, 32)
}

/// the 64-byte tag block (tag byte then 63 zeros) encrypted with keystream block 1
pub open spec fn stream_tagblock(k: Seq<u8>, n: Seq<u8>, tag: u8) -> Seq<u8> {
    cc_xor(zeros(64).update(0, tag), k, n, 64)
}

/// message body encrypted from keystream block 2 on
pub open spec fn stream_body(k: Seq<u8>, n: Seq<u8>, m: Seq<u8>) -> Seq<u8> {
    cc_xor(m, k, n, 128)
}

/// libsodium pads the body with (0x10 - 64 + mlen) & 0xf zero bytes (sic)
pub open spec fn stream_pad2(mlen: nat) -> nat {
    (((0x10 - 64 + mlen as int) as i64) & 0xf) as nat
}

/// Poly1305 input: AD || pad16 || tagblock || body || pad2 || le64(|AD|) || le64(64 + |m|)
pub open spec fn stream_mac_input(ad: Seq<u8>, tagblock: Seq<u8>, body: Seq<u8>) -> Seq<u8> {
    Seq::<u8>::empty() + ad + zeros(((16 - ad.len() % 16) % 16) as nat) + tagblock + body + zeros(stream_pad2(body.len()))
        + (nat_to_le(ad.len(), 8) + nat_to_le(64 + body.len(), 8))
}

pub open spec fn stream_mac(k: Seq<u8>, n: Seq<u8>, ad: Seq<u8>, tagblock: Seq<u8>, body: Seq<u8>) -> Seq<u8> {
    poly1305_spec(stream_otk(k, n), stream_mac_input(ad, tagblock, body))
}

/// ciphertext of push: encrypted tag byte || body || mac
pub open spec fn stream_push_ct(k: Seq<u8>, n: Seq<u8>, m: Seq<u8>, ad: Seq<u8>, tag: u8) -> Seq<u8> {
    let tb = stream_tagblock(k, n, tag);
    let body = stream_body(k, n, m);
    seq![tb[0]] + body + stream_mac(k, n, ad, tb, body)
}

/// rekey: (k || inonce) XOR ChaCha20 keystream under (k, nonce); counter = 1
pub open spec fn stream_rekey_k(k: Seq<u8>, n: Seq<u8>) -> Seq<u8> {
    cc_xor(k + n.subrange(4, 12), k, n, 0).subrange(0, 32)
}

pub open spec fn stream_rekey_nonce(k: Seq<u8>, n: Seq<u8>) -> Seq<u8> {
    seq![1u8, 0u8, 0u8, 0u8] + cc_xor(k + n.subrange(4, 12), k, n, 0).subrange(32, 40)
}

/// nonce after a message with authenticator `mac`: inonce ^= mac[0..8]; counter += 1 (mod 2^32)
pub open spec fn stream_step_nonce(n: Seq<u8>, mac: Seq<u8>) -> Seq<u8> {
    nat_to_le((le_nat(n.subrange(0, 4)) + 1) % pow256(4), 4) + Seq::new(8, |i: int| n[4 + i] ^ mac[i])
}

/// rekey happens iff the REKEY bit (0x02) of the tag is set or the counter wrapped to zero
pub open spec fn stream_rekeys(n1: Seq<u8>, tag: u8) -> bool {
    (tag & 0x02) == 0x02 || n1.subrange(0, 4) == zeros(4)
}

pub open spec fn stream_next_k(k: Seq<u8>, n: Seq<u8>, mac: Seq<u8>, tag: u8) -> Seq<u8> {
    let n1 = stream_step_nonce(n, mac);
    if stream_rekeys(n1, tag) { stream_rekey_k(k, n1) } else { k }
}

pub open spec fn stream_next_nonce(k: Seq<u8>, n: Seq<u8>, mac: Seq<u8>, tag: u8) -> Seq<u8> {
    let n1 = stream_step_nonce(n, mac);
    if stream_rekeys(n1, tag) { stream_rekey_nonce(k, n1) } else { n1 }
}

} // verus!

verus! {

/// tag byte recovered by pull from the first ciphertext byte
pub open spec fn stream_pull_tag(k: Seq<u8>, n: Seq<u8>, c0: u8) -> u8 {
    c0 ^ chacha20_stream(k, n, 64)
}

/// pull accepts ciphertext c (with associated data ad) in state (k, n) iff it is long enough and its last 16 bytes are
/// the Poly1305 tag of the layout that push authenticates
pub open spec fn stream_pull_accepts(k: Seq<u8>, n: Seq<u8>, c: Seq<u8>, ad: Seq<u8>) -> bool {
    c.len() >= 17 && {
        let mlen = c.len() - 17;
        let body = c.subrange(1, 1 + mlen);
        c.subrange(1 + mlen, 17 + mlen) == stream_mac(k, n, ad, stream_tagblock(k, n, stream_pull_tag(k, n, c[0])), body)
    }
}

/// the tag block that pull authenticates (first ciphertext byte, then keystream) is the one push produced
pub proof fn lemma_pull_tagblock(k: Seq<u8>, n: Seq<u8>, c0: u8, enc: Seq<u8>)
    requires
        enc == cc_xor(zeros(64).update(0, c0), k, n, 64),
    ensures
        enc[0] == stream_pull_tag(k, n, c0),
        enc.update(0, c0) == stream_tagblock(k, n, stream_pull_tag(k, n, c0)),
{
    let ks = chacha20_stream(k, n, 64);
    let t = stream_pull_tag(k, n, c0);
    assert((c0 ^ ks) ^ ks == c0) by (bit_vector);
    let tb = stream_tagblock(k, n, t);
    assert forall|i: int| 0 <= i < 64 implies #[trigger] enc.update(0, c0)[i] == tb[i] by {
        if i == 0 {
            assert(tb[0] == t ^ ks);
        } else {
            assert(zeros(64).update(0, c0)[i] == 0u8);
            assert(zeros(64).update(0, t)[i] == 0u8);
        }
    }
    assert(enc.update(0, c0) =~= tb);
}

/// decrypting the body is the same XOR as encrypting
pub proof fn lemma_cc_xor_involutive(m: Seq<u8>, k: Seq<u8>, n: Seq<u8>, off: int)
    ensures
        cc_xor(cc_xor(m, k, n, off), k, n, off) =~= m,
{
    assert forall|i: int| 0 <= i < m.len() implies #[trigger] cc_xor(cc_xor(m, k, n, off), k, n, off)[i] == m[i] by {
        let a = m[i];
        let b = chacha20_stream(k, n, off + i);
        assert((a ^ b) ^ b == a) by (bit_vector);
    }
}

} // verus!

verus! {

/// C03 lockstep, as a theorem over the push/pull contracts: in equal states, the ciphertext produced by push is
/// accepted by pull (same associated data), pull recovers exactly the message and the tag, and — because both sides
/// then step with the same authenticator and tag — the two states are equal again.
pub proof fn lemma_stream_lockstep(k: Seq<u8>, n: Seq<u8>, m: Seq<u8>, ad: Seq<u8>, tag: u8)
    ensures
        ({
            let c = stream_push_ct(k, n, m, ad, tag);
            let mac = c.subrange(c.len() - 16, c.len() as int);
            &&& c.len() == m.len() + 17
            &&& stream_pull_accepts(k, n, c, ad)
            &&& stream_pull_tag(k, n, c[0]) == tag
            &&& stream_body(k, n, c.subrange(1, c.len() - 16)) == m
            &&& mac == c.subrange(1 + m.len() as int, 17 + m.len() as int)
        }),
{
    let tb = stream_tagblock(k, n, tag);
    let body = stream_body(k, n, m);
    let mac = stream_mac(k, n, ad, tb, body);
    let c = stream_push_ct(k, n, m, ad, tag);
    assert(mac.len() == 16) by {
        lemma_poly1305_spec_len(stream_otk(k, n), stream_mac_input(ad, tb, body));
    }
    assert(c =~= seq![tb[0]] + body + mac);
    assert(c.len() == m.len() + 17);
    let ks = chacha20_stream(k, n, 64);
    assert(tb[0] == tag ^ ks);
    assert((tag ^ ks) ^ ks == tag) by (bit_vector);
    assert(stream_pull_tag(k, n, c[0]) == tag);
    assert(c.subrange(1, 1 + m.len() as int) =~= body);
    assert(c.subrange(1 + m.len() as int, 17 + m.len() as int) =~= mac);
    lemma_cc_xor_involutive(m, k, n, 128);
    assert(c.subrange(1, c.len() - 16) =~= body);
    assert(c.subrange(c.len() - 16, c.len() as int) =~= mac);
}

} // verus!
