//@ props=*
//! Assumed contracts on code that is NOT verified: third-party crates, std items without a vstd
//! spec, and monomorphic shims (rule R2) whose *body is the original call*.
//! Every item here is an assumption and is listed in the evidence (`trusted_base`).
use vstd::prelude::*;
use vstd::std_specs::cmp::OrdSpec;

verus! {

// ---- errors (rule R4: message text dropped, control flow kept) --------------------------------
#[verifier::external_type_specification]
#[verifier::external_body]
pub struct ExError(crate::error::Error);

#[verifier::external_body]
pub fn mk_error() -> crate::error::Error {
    crate::error::Error::Message(String::new())
}

} // verus!

verus! {

// ---- std items without a vstd specification -----------------------------------------------------
pub assume_specification<T>[ std::cmp::min ](a: T, b: T) -> (r: T) where T: std::cmp::Ord + std::marker::Destruct
    ensures
        T::obeys_cmp_spec() ==> (r == (if b.cmp_spec(&a) == core::cmp::Ordering::Less { b } else { a })),
;

pub assume_specification<T>[ std::cmp::max ](a: T, b: T) -> (r: T) where T: std::cmp::Ord + std::marker::Destruct
    ensures
        T::obeys_cmp_spec() ==> (r == (if b.cmp_spec(&a) == core::cmp::Ordering::Less { a } else { b })),
;

} // verus!
