//@ props=*
//! Assumed contracts on code that is NOT verified: third-party crates, std items without a vstd
//! spec, and monomorphic shims (rule R2) whose *body is the original call*.
//! Every item here is an assumption and is listed in the evidence (`trusted_base`).
use vstd::prelude::*;
use vstd::std_specs::cmp::OrdSpec;

verus! {

// ---- errors (rule R4: message text dropped, control flow kept) --------------------------------
#[verifier::external_type_specification]
#[verifier::external_body]
pub struct ExError(crate::error::Error);

#[verifier::external_body]
pub fn mk_error() -> crate::error::Error {
    crate::error::Error::Message(String::new())
}

} // verus!

verus! {

// ---- std items without a vstd specification -----------------------------------------------------
/// `slice.fill(v)`: every element becomes v (std documentation)
pub assume_specification<T>[ <[T]>::fill ](s: &mut [T], v: T) where T: std::clone::Clone
    ensures
        final(s)@.len() == old(s)@.len(),
        forall|i: int| 0 <= i < old(s)@.len() ==> #[trigger] final(s)@[i] == v,
;

/// `rotate_right(k)`: element i moves to (i + k) mod len  (std documentation); panics if k > len
pub assume_specification<T>[ <[T]>::rotate_right ](s: &mut [T], k: usize)
    requires
        k <= old(s)@.len(),
    ensures
        final(s)@ == old(s)@.subrange(old(s)@.len() - k, old(s)@.len() as int) + old(s)@.subrange(0, old(s)@.len() - k),
;

/// `rotate_left(k)`: first k elements move to the end; panics if k > len
pub assume_specification<T>[ <[T]>::rotate_left ](s: &mut [T], k: usize)
    requires
        k <= old(s)@.len(),
    ensures
        final(s)@ == old(s)@.subrange(k as int, old(s)@.len() as int) + old(s)@.subrange(0, k as int),
;

pub assume_specification<T>[ std::cmp::min ](a: T, b: T) -> (r: T) where T: std::cmp::Ord + std::marker::Destruct
    ensures
        T::obeys_cmp_spec() ==> (r == (if b.cmp_spec(&a) == core::cmp::Ordering::Less { b } else { a })),
;

pub assume_specification<T>[ std::cmp::max ](a: T, b: T) -> (r: T) where T: std::cmp::Ord + std::marker::Destruct
    ensures
        T::obeys_cmp_spec() ==> (r == (if b.cmp_spec(&a) == core::cmp::Ordering::Less { a } else { b })),
;

} // verus!

// ================================================================================================
// salsa20 / chacha20 / cipher / generic-array / subtle / zeroize
// ================================================================================================
verus! {

use generic_array::typenum::{UInt, UTerm, B0, B1};

pub type U512ish = UInt<UInt<UInt<UInt<UInt<UInt<UInt<UInt<UInt<UTerm, B1>, B0>, B0>, B0>, B0>, B0>, B0>, B0>, B0>;

#[verifier::reject_recursive_types(T)]
#[verifier::external_type_specification]
#[verifier::external_body]
#[verifier::allow(undeclared_external_trait)]
pub struct ExStreamCipherCoreWrapper<T>(salsa20::cipher::StreamCipherCoreWrapper<T>) where
    <<T as salsa20::cipher::BlockSizeUser>::BlockSize as generic_array::typenum::IsLess<U512ish>>::Output: generic_array::typenum::NonZero,
    <T as salsa20::cipher::BlockSizeUser>::BlockSize: generic_array::typenum::IsLess<U512ish>,
    T: salsa20::cipher::BlockSizeUser;

#[verifier::reject_recursive_types(R)]
#[verifier::external_type_specification]
#[verifier::external_body]
#[verifier::allow(undeclared_external_trait)]
pub struct ExXSalsaCore<R>(salsa20::XSalsaCore<R>) where R: generic_array::typenum::Unsigned;

#[verifier::reject_recursive_types(B)]
#[verifier::reject_recursive_types(U)]
#[verifier::external_type_specification]
#[verifier::external_body]
pub struct ExUInt<U, B>(generic_array::typenum::UInt<U, B>);

#[verifier::external_type_specification]
#[verifier::external_body]
pub struct ExUTerm(generic_array::typenum::UTerm);

#[verifier::external_type_specification]
#[verifier::external_body]
pub struct ExB1(generic_array::typenum::B1);

#[verifier::external_type_specification]
#[verifier::external_body]
pub struct ExB0(generic_array::typenum::B0);

// ---- XSalsa20 (salsa20 crate): ghost view (key, nonce, position in the keystream) ---------------
pub uninterp spec fn xs_key(c: &salsa20::XSalsa20) -> Seq<u8>;

pub uninterp spec fn xs_nonce(c: &salsa20::XSalsa20) -> Seq<u8>;

pub uninterp spec fn xs_pos(c: &salsa20::XSalsa20) -> int;

/// byte i of the XSalsa20 keystream for (key, nonce): ASSUMED to be what the salsa20 crate computes
pub uninterp spec fn xsalsa20_stream(k: Seq<u8>, n: Seq<u8>, i: int) -> u8;

/// m XOR keystream[off..]
pub open spec fn xs_xor(m: Seq<u8>, k: Seq<u8>, n: Seq<u8>, off: int) -> Seq<u8> {
    Seq::new(m.len(), |i: int| m[i] ^ xsalsa20_stream(k, n, off + i))
}

/// R2 shim for `XSalsa20::new(GenericArray::from_slice(key), GenericArray::from_slice(nonce))`
#[verifier::external_body]
pub fn shim_xsalsa20_new(key: &[u8; 32], nonce: &[u8; 24]) -> (c: salsa20::XSalsa20)
    ensures
        xs_key(&c) == key@,
        xs_nonce(&c) == nonce@,
        xs_pos(&c) == 0,
{
    use salsa20::cipher::KeyIvInit;
    salsa20::XSalsa20::new(
        generic_array::GenericArray::from_slice(key),
        generic_array::GenericArray::from_slice(nonce),
    )
}

/// R2 shim for `cipher.apply_keystream(buf)`
#[verifier::external_body]
pub fn shim_xsalsa20_apply(c: &mut salsa20::XSalsa20, buf: &mut [u8])
    ensures
        xs_key(final(c)) == xs_key(old(c)),
        xs_nonce(final(c)) == xs_nonce(old(c)),
        xs_pos(final(c)) == xs_pos(old(c)) + old(buf)@.len(),
        final(buf)@ == xs_xor(old(buf)@, xs_key(old(c)), xs_nonce(old(c)), xs_pos(old(c))),
{
    use salsa20::cipher::StreamCipher;
    c.apply_keystream(buf)
}

// ---- subtle ------------------------------------------------------------------------------------
/// R2 shim for `a.ct_eq(b).unwrap_u8()` on byte slices
#[verifier::external_body]
pub fn shim_ct_eq(a: &[u8], b: &[u8]) -> (r: u8)
    ensures
        r == 1 <==> a@ == b@,
        r == 0 || r == 1,
        // consequence of the first clause by extensionality, stated so that callers comparing against an
        // anonymous `[0u8; N]` need no in-body hint
        (forall|i: int| 0 <= i < b@.len() ==> b@[i] == 0u8) ==> (r == 1 <==> a@ == crate::verif_spec::zeros(b@.len())),
{
    use subtle::ConstantTimeEq;
    a.ct_eq(b).unwrap_u8()
}

// ---- zeroize -----------------------------------------------------------------------------------
/// R2 shim for `x.zeroize()` on a byte slice / array
#[verifier::external_body]
pub fn shim_zeroize(a: &mut [u8])
    ensures
        final(a)@ == crate::verif_spec::zeros(old(a)@.len()),
{
    use zeroize::Zeroize;
    a.zeroize()
}

} // verus!

// ---- ChaCha20-IETF (chacha20 crate): ghost view (key, 12-byte nonce, byte position) ------------
verus! {

#[verifier::reject_recursive_types(R)]
#[verifier::external_type_specification]
#[verifier::external_body]
#[verifier::allow(undeclared_external_trait)]
pub struct ExChaChaCore<R>(chacha20::ChaChaCore<R>) where R: generic_array::typenum::Unsigned;

pub uninterp spec fn cc_key(c: &chacha20::ChaCha20) -> Seq<u8>;

pub uninterp spec fn cc_nonce(c: &chacha20::ChaCha20) -> Seq<u8>;

pub uninterp spec fn cc_pos(c: &chacha20::ChaCha20) -> int;

/// byte i of the ChaCha20-IETF (RFC 8439, 32-bit block counter starting at 0) keystream for (key, nonce12):
/// ASSUMED to be what the chacha20 crate computes
pub uninterp spec fn chacha20_stream(k: Seq<u8>, n: Seq<u8>, i: int) -> u8;

pub open spec fn cc_xor(m: Seq<u8>, k: Seq<u8>, n: Seq<u8>, off: int) -> Seq<u8> {
    Seq::new(m.len(), |i: int| m[i] ^ chacha20_stream(k, n, off + i))
}

/// R2 shim for `ChaCha20::new(Key::from_slice(k), Nonce::from_slice(n))`
#[verifier::external_body]
pub fn shim_chacha20_new(key: &[u8; 32], nonce: &[u8; 12]) -> (c: chacha20::ChaCha20)
    ensures
        cc_key(&c) == key@,
        cc_nonce(&c) == nonce@,
        cc_pos(&c) == 0,
{
    use chacha20::cipher::KeyIvInit;
    chacha20::ChaCha20::new(chacha20::Key::from_slice(key), chacha20::Nonce::from_slice(nonce))
}

/// R2 shim for `cipher.apply_keystream(buf)`
#[verifier::external_body]
pub fn shim_chacha20_apply(c: &mut chacha20::ChaCha20, buf: &mut [u8])
    ensures
        cc_key(final(c)) == cc_key(old(c)),
        cc_nonce(final(c)) == cc_nonce(old(c)),
        cc_pos(final(c)) == cc_pos(old(c)) + old(buf)@.len(),
        final(buf)@ == cc_xor(old(buf)@, cc_key(old(c)), cc_nonce(old(c)), cc_pos(old(c))),
{
    use chacha20::cipher::StreamCipher;
    c.apply_keystream(buf)
}

/// R2 shim for `cipher.seek(pos)`
#[verifier::external_body]
pub fn shim_chacha20_seek(c: &mut chacha20::ChaCha20, pos: u32)
    ensures
        cc_key(final(c)) == cc_key(old(c)),
        cc_nonce(final(c)) == cc_nonce(old(c)),
        cc_pos(final(c)) == pos,
{
    use chacha20::cipher::StreamCipherSeek;
    c.seek(pos)
}

/// R2 shim for `x.to_le_bytes()` on u64: the 8 little-endian bytes of x
#[verifier::external_body]
pub fn shim_u64_to_le_bytes(x: u64) -> (r: [u8; 8])
    ensures
        r@ == crate::verif_spec::nat_to_le(x as nat, 8),
{
    x.to_le_bytes()
}

/// R2 shim for `x.to_le_bytes()` on usize (64-bit target): the 8 little-endian bytes of x
#[verifier::external_body]
pub fn shim_usize_to_le_bytes(x: usize) -> (r: [u8; 8])
    ensures
        r@ == crate::verif_spec::nat_to_le(x as nat, 8),
{
    x.to_le_bytes()
}

} // verus!

// ---- rand_core::OsRng --------------------------------------------------------------------------
verus! {

/// R2 shim for `OsRng.try_fill_bytes(buf).expect("failed to fill random bytes")`: THE source of the uninterpreted fact
/// rng_drawn (C11): the operating-system generator filled exactly these bytes (a failure of the OS generator panics, as
/// in the original expression). Statistical quality / independence across calls is assumption A-RNG.
#[verifier::external_body]
pub fn shim_osrng_fill(buf: &mut [u8])
    ensures
        final(buf)@.len() == old(buf)@.len(),
        crate::verif_types::rng_drawn(final(buf)@),
{
    use rand_core::{OsRng, TryRngCore};
    OsRng.try_fill_bytes(buf).expect("failed to fill random bytes");
}

} // verus!
