//@ props=*
//! One import for every annotated file.
#[allow(unused_imports)]
pub use crate::verif_spec::*;
#[allow(unused_imports)]
pub use crate::verif_extern::*;
#[allow(unused_imports)]
pub use crate::verif_types::{BytesSpec, ResizableSpec, rng_drawn, axiom_rview_is_bview};
#[allow(unused_imports)]
pub use crate::spec_poly1305::*;
#[allow(unused_imports)]
pub use crate::spec_aead::*;
#[allow(unused_imports)]
pub use crate::spec_hash::*;
#[allow(unused_imports)]
pub use crate::spec_curve::*;
