//@ props=*
//! Mathematical specification functions and lemmas (written from the standards, not from the code).
use vstd::prelude::*;

verus! {

/// little-endian value of a byte sequence
pub open spec fn le_nat(s: Seq<u8>) -> nat
    decreases s.len(),
{
    if s.len() == 0 {
        0
    } else {
        (s[0] as nat) + 256 * le_nat(s.subrange(1, s.len() as int))
    }
}

/// little-endian encoding of v in `len` bytes (v mod 256^len)
pub open spec fn nat_to_le(v: nat, len: nat) -> Seq<u8>
    decreases len,
{
    if len == 0 {
        Seq::empty()
    } else {
        seq![(v % 256) as u8] + nat_to_le(v / 256, (len - 1) as nat)
    }
}

/// bytes of an optional slice (None = empty)
pub open spec fn opt_bytes(o: Option<&[u8]>) -> Seq<u8> {
    match o {
        Some(s) => s@,
        None => Seq::<u8>::empty(),
    }
}

pub open spec fn zeros(len: nat) -> Seq<u8> {
    Seq::new(len, |i: int| 0u8)
}

pub open spec fn spec_rotr64(x: u64, b: u64) -> u64 {
    (x >> b) | (x << ((64 - b) as u64))
}

pub proof fn lemma_le_nat_4(s: Seq<u8>)
    requires
        s.len() == 4,
    ensures
        le_nat(s) == s[0] as nat + 0x100 * (s[1] as nat) + 0x1_0000 * (s[2] as nat) + 0x100_0000 * (s[3] as nat),
{
    reveal_with_fuel(le_nat, 6);
    let s1 = s.subrange(1, 4);
    let s2 = s1.subrange(1, 3);
    let s3 = s2.subrange(1, 2);
    let s4 = s3.subrange(1, 1);
    assert(s4.len() == 0);
    assert(le_nat(s3) == s[3] as nat);
    assert(le_nat(s2) == s[2] as nat + 256 * le_nat(s3));
    assert(le_nat(s1) == s[1] as nat + 256 * le_nat(s2));
}

pub proof fn lemma_le_nat_split(s: Seq<u8>, k: int)
    requires
        0 <= k <= s.len(),
    ensures
        le_nat(s) == le_nat(s.subrange(0, k)) + pow256(k as nat) * le_nat(s.subrange(k, s.len() as int)),
    decreases k,
{
    if k == 0 {
        assert(s.subrange(0, 0).len() == 0);
        assert(s.subrange(0, s.len() as int) =~= s);
        assert(le_nat(s.subrange(0, 0)) == 0);
        assert(pow256(0) == 1);
        assert(1 * le_nat(s) == le_nat(s)) by (nonlinear_arith);
    } else {
        let t = s.subrange(1, s.len() as int);
        lemma_le_nat_split(t, k - 1);
        assert(t.subrange(0, k - 1) =~= s.subrange(0, k).subrange(1, k));
        assert(t.subrange(k - 1, t.len() as int) =~= s.subrange(k, s.len() as int));
        assert(s.subrange(0, k)[0] == s[0]);
        reveal_with_fuel(pow256, 2);
        assert(pow256(k as nat) == 256 * pow256((k - 1) as nat));
        let a = le_nat(t.subrange(0, k - 1));
        let b = le_nat(s.subrange(k, s.len() as int));
        let p = pow256((k - 1) as nat);
        assert(256 * (a + p * b) == 256 * a + (256 * p) * b) by (nonlinear_arith);
        assert(le_nat(t) == a + p * b);
        assert(le_nat(s) == s[0] as nat + 256 * le_nat(t));
        assert(le_nat(s.subrange(0, k)) == s[0] as nat + 256 * a);
    }
}

pub open spec fn pow256(k: nat) -> nat
    decreases k,
{
    if k == 0 { 1 } else { 256 * pow256((k - 1) as nat) }
}

pub proof fn lemma_le_nat_8(s: Seq<u8>)
    requires
        s.len() == 8,
    ensures
        le_nat(s) == s[0] as nat + 0x100 * (s[1] as nat) + 0x1_0000 * (s[2] as nat) + 0x100_0000 * (s[3] as nat)
            + 0x1_0000_0000 * (s[4] as nat) + 0x100_0000_0000 * (s[5] as nat) + 0x1_0000_0000_0000 * (s[6] as nat)
            + 0x100_0000_0000_0000 * (s[7] as nat),
{
    lemma_le_nat_split(s, 4);
    let a = s.subrange(0, 4);
    let b = s.subrange(4, 8);
    lemma_le_nat_4(a);
    lemma_le_nat_4(b);
    assert(pow256(4) == 0x1_0000_0000) by (compute_only);
    assert(a[0] == s[0] && a[1] == s[1] && a[2] == s[2] && a[3] == s[3]);
    assert(b[0] == s[4] && b[1] == s[5] && b[2] == s[6] && b[3] == s[7]);
    assert(le_nat(s) == le_nat(a) + 0x1_0000_0000 * le_nat(b));
}

pub proof fn lemma_or_shift_4(b0: u8, b1: u8, b2: u8, b3: u8)
    ensures
        ((b0 as u32) | ((b1 as u32) << 8) | ((b2 as u32) << 16) | ((b3 as u32) << 24)) as nat == b0 as nat + 0x100 * (
        b1 as nat) + 0x1_0000 * (b2 as nat) + 0x100_0000 * (b3 as nat),
{
    let r = (b0 as u32) | ((b1 as u32) << 8) | ((b2 as u32) << 16) | ((b3 as u32) << 24);
    assert(r == add(add(add(b0 as u32, mul(0x100, b1 as u32)), mul(0x1_0000, b2 as u32)), mul(0x100_0000, b3 as u32)))
        by (bit_vector)
        requires r == (b0 as u32) | ((b1 as u32) << 8) | ((b2 as u32) << 16) | ((b3 as u32) << 24);
}

pub proof fn lemma_or_shift_8(b0: u8, b1: u8, b2: u8, b3: u8, b4: u8, b5: u8, b6: u8, b7: u8)
    ensures
        ((b0 as u64) | ((b1 as u64) << 8) | ((b2 as u64) << 16) | ((b3 as u64) << 24) | ((b4 as u64) << 32) | ((b5 as u64)
            << 40) | ((b6 as u64) << 48) | ((b7 as u64) << 56)) as nat == b0 as nat + 0x100 * (b1 as nat) + 0x1_0000 * (
        b2 as nat) + 0x100_0000 * (b3 as nat) + 0x1_0000_0000 * (b4 as nat) + 0x100_0000_0000 * (b5 as nat)
            + 0x1_0000_0000_0000 * (b6 as nat) + 0x100_0000_0000_0000 * (b7 as nat),
{
    let r = (b0 as u64) | ((b1 as u64) << 8) | ((b2 as u64) << 16) | ((b3 as u64) << 24) | ((b4 as u64) << 32) | ((
    b5 as u64) << 40) | ((b6 as u64) << 48) | ((b7 as u64) << 56);
    assert(r == add(
        add(
            add(
                add(
                    add(
                        add(add(b0 as u64, mul(0x100, b1 as u64)), mul(0x1_0000, b2 as u64)),
                        mul(0x100_0000, b3 as u64),
                    ),
                    mul(0x1_0000_0000, b4 as u64),
                ),
                mul(0x100_0000_0000, b5 as u64),
            ),
            mul(0x1_0000_0000_0000, b6 as u64),
        ),
        mul(0x100_0000_0000_0000, b7 as u64),
    )) by (bit_vector)
        requires
            r == (b0 as u64) | ((b1 as u64) << 8) | ((b2 as u64) << 16) | ((b3 as u64) << 24) | ((b4 as u64) << 32) | ((
            b5 as u64) << 40) | ((b6 as u64) << 48) | ((b7 as u64) << 56),
    ;
}

pub proof fn lemma_le_nat_bound(s: Seq<u8>)
    ensures
        le_nat(s) < pow256(s.len()),
    decreases s.len(),
{
    if s.len() == 0 {
    } else {
        lemma_le_nat_bound(s.subrange(1, s.len() as int));
    }
}

pub proof fn lemma_le_nat_push(s: Seq<u8>, b: u8)
    ensures
        le_nat(s.push(b)) == le_nat(s) + pow256(s.len()) * (b as nat),
{
    let t = s.push(b);
    lemma_le_nat_split(t, s.len() as int);
    assert(t.subrange(0, s.len() as int) =~= s);
    let l = t.subrange(s.len() as int, t.len() as int);
    assert(l.len() == 1);
    assert(l[0] == b);
    assert(l.subrange(1, 1).len() == 0);
    assert(le_nat(l) == b as nat) by {
        reveal_with_fuel(le_nat, 3);
    }
}

/// one iteration of `increment_bytes`: byte i becomes (c0 + old[i]) & 0xff, carry becomes (c0 + old[i]) >> 8
pub proof fn lemma_increment_step(pre: Seq<u8>, post: Seq<u8>, orig: Seq<u8>, i: int, c0: nat, c1: nat)
    requires
        0 <= i < pre.len(),
        pre.len() == post.len() == orig.len(),
        c0 <= 1,
        pre[i] == orig[i],
        post =~= pre.update(i, post[i]),
        post[i] == (((c0 + orig[i] as nat) as u16) & 0xff) as u8,
        c1 == ((c0 + orig[i] as nat) as u16) >> 8,
        le_nat(pre.subrange(0, i)) + c0 * pow256(i as nat) == le_nat(orig.subrange(0, i)) + 1,
    ensures
        c1 <= 1,
        le_nat(post.subrange(0, i + 1)) + c1 * pow256((i + 1) as nat) == le_nat(orig.subrange(0, i + 1)) + 1,
{
    let p = pow256(i as nat);
    assert(pow256((i + 1) as nat) == 256 * p) by {
        reveal_with_fuel(pow256, 2);
    }
    assert(post.subrange(0, i + 1) =~= pre.subrange(0, i).push(post[i]));
    assert(orig.subrange(0, i + 1) =~= orig.subrange(0, i).push(orig[i]));
    lemma_le_nat_push(pre.subrange(0, i), post[i]);
    lemma_le_nat_push(orig.subrange(0, i), orig[i]);
    let x = c0 + orig[i] as nat;
    let xw = x as u16;
    assert(((xw & 0xff) as u8) as u16 == xw % 256 && xw >> 8 == xw / 256) by (bit_vector);
    assert(x == 256 * (x / 256) + x % 256);
    let nb = post[i] as nat;
    let ob = orig[i] as nat;
    assert(p * nb + c1 * (256 * p) == p * (nb + 256 * c1)) by (nonlinear_arith);
    assert(p * (c0 + ob) == c0 * p + p * ob) by (nonlinear_arith);
}

pub proof fn lemma_increment_final(post: Seq<u8>, orig: Seq<u8>, carry: nat)
    requires
        post.len() == orig.len(),
        carry <= 1,
        le_nat(post.subrange(0, post.len() as int)) + carry * pow256(post.len()) == le_nat(
            orig.subrange(0, orig.len() as int),
        ) + 1,
    ensures
        le_nat(post) == (le_nat(orig) + 1) % pow256(orig.len()),
{
    assert(post.subrange(0, post.len() as int) =~= post);
    assert(orig.subrange(0, orig.len() as int) =~= orig);
    let m = pow256(orig.len());
    lemma_le_nat_bound(post);
    lemma_le_nat_bound(orig);
    if carry == 0 {
        assert(le_nat(post) == le_nat(orig) + 1);
        assert((le_nat(orig) + 1) % m == le_nat(orig) + 1) by (nonlinear_arith)
            requires le_nat(orig) + 1 < m;
    } else {
        assert(carry * m == m) by (nonlinear_arith) requires carry == 1;
        assert(le_nat(orig) + 1 == le_nat(post) + m);
        assert((le_nat(post) + m) % m == le_nat(post)) by (nonlinear_arith)
            requires le_nat(post) < m, m > 0;
    }
}

pub proof fn lemma_nat_to_le_of_le_nat(s: Seq<u8>)
    ensures
        nat_to_le(le_nat(s), s.len()) =~= s,
    decreases s.len(),
{
    if s.len() == 0 {
    } else {
        let t = s.subrange(1, s.len() as int);
        lemma_nat_to_le_of_le_nat(t);
        let v = le_nat(s);
        assert(v == s[0] as nat + 256 * le_nat(t));
        assert(v % 256 == s[0] as nat && v / 256 == le_nat(t)) by (nonlinear_arith)
            requires
                v == s[0] as nat + 256 * le_nat(t),
                (s[0] as nat) < 256,
        ;
        assert(nat_to_le(v, s.len()) =~= seq![(v % 256) as u8] + nat_to_le(v / 256, (s.len() - 1) as nat));
    }
}

pub proof fn lemma_pad16(n: usize)
    ensures
        (((0x10 - (n % 16)) as usize) & 0xf) < 16,
        (n + (((0x10 - (n % 16)) as usize) & 0xf)) % 16 == 0,
{
    let m: usize = n % 16;
    assert(m < 16);
    assert((sub(0x10usize, m) & 0xf) == (if m == 0 { 0usize } else { sub(16usize, m) })) by (bit_vector)
        requires m < 16;
}

} // verus!
