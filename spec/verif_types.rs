//@ props=*
//! Contracts of dryoc's container traits (src/types.rs), attached to the *untouched* trait
//! definitions with external_trait_specification; `bview()` is the spec view (the bytes held).
//! Generic functions of the object API are verified once against these contracts.
use vstd::prelude::*;
use crate::verif_spec::*;

verus! {

#[verifier::external_trait_specification]
#[verifier::external_trait_extension(BytesSpec via BytesSpecImpl)]
pub trait ExBytes {
    type ExternalTraitSpecificationFor: crate::types::Bytes;

    spec fn bview(&self) -> Seq<u8>;

    fn as_slice(&self) -> (r: &[u8])
        ensures
            r@ == self.bview(),
    ;

    fn len(&self) -> (r: usize)
        ensures
            r == self.bview().len(),
    ;

    fn is_empty(&self) -> (r: bool)
        ensures
            r == (self.bview().len() == 0),
    ;
}

#[verifier::external_trait_specification]
pub trait ExByteArray<const LENGTH: usize>: crate::types::Bytes {
    type ExternalTraitSpecificationFor: crate::types::ByteArray<LENGTH>;

    fn as_array(&self) -> (r: &[u8; LENGTH])
        requires
            self.bview().len() >= LENGTH,
        ensures
            r@ == self.bview().subrange(0, LENGTH as int),
            self.bview().len() == LENGTH ==> r@ == self.bview(),
    ;
}

#[verifier::external_trait_specification]
pub trait ExMutBytes: crate::types::Bytes {
    type ExternalTraitSpecificationFor: crate::types::MutBytes;

    fn as_mut_slice(&mut self) -> (r: &mut [u8])
        ensures
            r@ == old(self).bview(),
            final(self).bview() == final(r)@,
    ;

    fn copy_from_slice(&mut self, other: &[u8])
        requires
            old(self).bview().len() == other@.len(),
        ensures
            final(self).bview() == other@,
    ;
}

#[verifier::external_trait_specification]
pub trait ExMutByteArray<const LENGTH: usize>: crate::types::ByteArray<LENGTH> + crate::types::MutBytes {
    type ExternalTraitSpecificationFor: crate::types::MutByteArray<LENGTH>;

    fn as_mut_array(&mut self) -> (r: &mut [u8; LENGTH])
        requires
            old(self).bview().len() >= LENGTH,
        ensures
            r@ == old(self).bview().subrange(0, LENGTH as int),
            final(self).bview() == final(r)@ + old(self).bview().subrange(LENGTH as int, old(self).bview().len() as int),
            old(self).bview().len() == LENGTH ==> r@ == old(self).bview() && final(self).bview() == final(r)@,
    ;
}

#[verifier::external_trait_specification]
pub trait ExNewBytes: crate::types::MutBytes {
    type ExternalTraitSpecificationFor: crate::types::NewBytes;

    fn new_bytes() -> (r: Self) where Self: Sized
    ;
    // NOTE: no length guarantee: `[u8; N]::new_bytes()` has N bytes, `Vec::new_bytes()` has none.
}

#[verifier::external_trait_specification]
pub trait ExNewByteArray<const LENGTH: usize>: crate::types::MutByteArray<LENGTH> + crate::types::NewBytes {
    type ExternalTraitSpecificationFor: crate::types::NewByteArray<LENGTH>;

    fn new_byte_array() -> (r: Self) where Self: Sized
        ensures
            r.bview() == zeros(LENGTH as nat),
    ;

    fn gen() -> (r: Self) where Self: Sized
        ensures
            r.bview().len() == LENGTH,
            rng_drawn(r.bview()),
    ;
}

#[verifier::external_trait_specification]
#[verifier::external_trait_extension(ResizableSpec via ResizableSpecImpl)]
pub trait ExResizableBytes {
    type ExternalTraitSpecificationFor: crate::types::ResizableBytes;

    /// the bytes held, as seen through the ResizableBytes trait (which has no supertrait); for every type that is also
    /// `Bytes` this is the same sequence as `bview()` — see axiom_rview_is_bview
    spec fn rview(&self) -> Seq<u8>;

    fn resize(&mut self, new_len: usize, value: u8)
        ensures
            final(self).rview().len() == new_len,
            forall|i: int| 0 <= i < new_len && i < old(self).rview().len() ==> #[trigger] final(self).rview()[i] == old(self).rview()[i],
            forall|i: int| old(self).rview().len() <= i < new_len ==> #[trigger] final(self).rview()[i] == value,
    ;
}

/// ASSUMED law of the container implementations: the two trait views of one object are the same byte sequence.
/// It holds by definition for the implementations verified here (`Vec<u8>`: both are `self@`); for the nightly
/// heap / locked containers it is an assumption.
pub broadcast axiom fn axiom_rview_is_bview<T: crate::types::Bytes + crate::types::ResizableBytes>(x: &T)
    ensures
        #[trigger] x.rview() == x.bview(),
;

impl ResizableSpecImpl for Vec<u8> {
    open spec fn rview(&self) -> Seq<u8> {
        self@
    }
}

/// Uninterpreted fact: "these bytes were filled by a call to the operating-system RNG made on this path".
/// Only the RNG wrappers (src/rng.rs) establish it (C11).
pub uninterp spec fn rng_drawn(s: Seq<u8>) -> bool;

impl BytesSpecImpl for [u8] {
    open spec fn bview(&self) -> Seq<u8> {
        self@
    }
}

impl<const LENGTH: usize> BytesSpecImpl for [u8; LENGTH] {
    open spec fn bview(&self) -> Seq<u8> {
        self@
    }
}

impl BytesSpecImpl for &[u8] {
    open spec fn bview(&self) -> Seq<u8> {
        (*self)@
    }
}

impl BytesSpecImpl for &mut [u8] {
    open spec fn bview(&self) -> Seq<u8> {
        (*self)@
    }
}

impl<const LENGTH: usize> BytesSpecImpl for &[u8; LENGTH] {
    open spec fn bview(&self) -> Seq<u8> {
        (*self)@
    }
}

impl BytesSpecImpl for Vec<u8> {
    open spec fn bview(&self) -> Seq<u8> {
        self@
    }
}

} // verus!
