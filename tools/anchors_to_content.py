#!/usr/bin/env python3
"""anchors_to_content.py [--write] [sidecar.vc ...] — convert ordinal statement anchors (`#@ at body after 4`) into content
anchors (`#@ at body after ~#k <regex of the statement's beginning>`) computed on /repo's CURRENT tree, so that proof hints
survive statements inserted, removed or reordered elsewhere in the block. Block / loop selectors stay ordinal (structure).
Without --write only reports what it would do."""
import os
import re
import sys

sys.path.insert(0, os.path.dirname(os.path.abspath(__file__)))
import annotate  # noqa: E402
import engine  # noqa: E402
import rstok  # noqa: E402


def stmt_text(src, toks, a, z):
    return ' '.join(src[toks[a].a:toks[z].b].split())


def regex_for(text):
    # the beginning of the statement up to a natural cut, long enough to be distinctive
    cut = len(text)
    for m in re.finditer(r'[;{]', text):
        cut = min(cut, m.start())
        break
    head = text[:min(cut, 48)]
    # do not end in the middle of an identifier / number
    if len(head) < len(text) and re.match(r'\w', text[len(head):len(head) + 1] or ' ') and re.search(r'\w$', head):
        head = re.sub(r'\w+$', '', head)
    head = head.rstrip()
    if len(head) < 6:
        head = text[:48]
    return re.escape(head).replace('\\ ', ' ')


def main():
    write = '--write' in sys.argv
    files = [a for a in sys.argv[1:] if not a.startswith('--')]
    cdir = os.path.join(engine.VERIF, 'contracts')
    if not files:
        files = sorted(os.path.join(cdir, n) for n in os.listdir(cdir) if n.endswith('.vc'))
    total = 0
    for path in files:
        lines = open(path).read().split('\n')
        # parse this sidecar alone to know, for each `at` line, the unit and the source file
        cur_file, cur_fn = None, None
        fn_rewrites = {}
        i = 0
        # first pass: collect rewrites per fn using annotate's parser
        parsed = annotate.parse_sidecar(path)
        contracts = annotate.load_contracts(cdir)
        out = list(lines)
        changed = 0
        for ln, line in enumerate(lines):
            if line.startswith('#@ file '):
                cur_file = line[len('#@ file '):].strip()
            elif line.startswith('#@ fn '):
                p, props, flags = annotate.parse_props(line[len('#@ fn '):].strip())
                cur_fn = p
            m = re.match(r'#@ at (body|loop \d+|block \d+) (before|after) (\d+)\s*$', line)
            if not m or cur_file is None or cur_fn is None:
                continue
            where, kind, n = m.group(1), m.group(2), int(m.group(3))
            src_path = os.path.join(engine.REPO, cur_file)
            src = open(src_path).read()
            fc = contracts.get(cur_file, {'units': [], 'filerewrites': []})
            for rule, rx, tmpl, _ in fc['filerewrites']:
                src, _n = annotate.apply_regex(src, rx, tmpl)
            toks = rstok.tokenize(src)
            items = rstok.parse_items(src, toks, 0, len(toks), None)
            try:
                it = annotate.find_one(items, 'fn', cur_fn, 'x')
            except annotate.LostAnchor:
                print('  skip (fn not found):', cur_fn)
                continue
            text = src[it.start:it.end]
            for u in fc['units']:
                if rstok.normalize_key(u.path) == rstok.normalize_key(cur_fn):
                    for rule, rx, tmpl, _ in u.rewrites:
                        text, _n = annotate.apply_regex(text, rx, tmpl)
            src2 = src[:it.start] + text + src[it.end:]
            toks = rstok.tokenize(src2)
            items = rstok.parse_items(src2, toks, 0, len(toks), None)
            it = annotate.find_one(items, 'fn', cur_fn, 'x')
            loops = rstok.body_loops(toks, it.body_open, it.body_close)
            blocks = rstok.body_blocks(toks, it.body_open, it.body_close)
            if where == 'body':
                o, c = it.body_open, it.body_close
            elif where.startswith('loop'):
                k = int(where.split()[1])
                if k < 1 or k > len(loops):
                    continue
                o, c = loops[k - 1][1], loops[k - 1][2]
            else:
                k = int(where.split()[1])
                if k >= len(blocks):
                    continue
                o, c = blocks[k].open, blocks[k].close
            st = rstok.statements(toks, o, c)
            if n < 1 or n > len(st):
                print('  skip (ordinal out of range):', path, ln + 1)
                continue
            texts = [stmt_text(src2, toks, a, z) for a, z, _ in st]
            rx = regex_for(texts[n - 1])
            try:
                cre = re.compile(rx)
            except re.error:
                continue
            hits = [j for j, t in enumerate(texts, 1) if cre.search(t)]
            if n not in hits:
                print('  skip (regex does not match own statement):', rx)
                continue
            nth = hits.index(n) + 1
            new = '#@ at %s %s ~%s%s' % (where, kind, ('#%d ' % nth) if nth > 1 else '', rx)
            out[ln] = new
            changed += 1
        if changed:
            print('%s: %d anchors converted' % (os.path.basename(path), changed))
            total += changed
            if write:
                open(path, 'w').write('\n'.join(out))
    print('total', total, '(written)' if write else '(dry run)')


if __name__ == '__main__':
    main()
