"""annotate.py — splice the sidecar contracts of /verif/contracts/*.vc into a scratch copy of /repo/src.

Nothing is re-typed: every function body that Verus sees is the text found in /repo at the
time of the run.  The tool only
  * inserts ghost text (verus!{ } wrappers, requires/ensures, invariants, proof blocks, spec items), and
  * applies the *listed* regex rewrites (rules R1..R7 of DESIGN.md), every application recorded.

Sidecar grammar (line oriented; a directive line starts with '#@', the text lines that follow
belong to it):

  #@ file src/utils.rs
  #@ top                      text inserted before the first item of the file
  #@ bottom [props=..]        text appended to the file
  #@ filerewrite <RULE>       regex / '==>' / template, applied to the whole file
  #@ wrap <kind> <path>       wrap an item (struct, const, impl, ...) in verus!{ }
  #@ before <kind> <path>     text inserted immediately before an item (attributes)
  #@ fn <path> props=C01,C02 [assumed]
                              start a unit: the function is wrapped in verus!{ }
  #@ ret <name>               name the return value  -> (name: T)
  #@ sig                      spec clauses inserted between the signature and the body
  #@ attr                     attributes inserted before the fn (inside verus!)
  #@ loop <K>                 invariant/decreases text for the K-th loop (preorder, 1-based)
  #@ at <body|loop K|block K> <entry|end|before N|after N>
                              ghost text at a statement boundary
  #@ rewrite <RULE>           regex / '==>' / template, applied inside the function text

<path> is ' :: ' separated, containers are 'mod x' / 'impl <header as written>' / 'trait X'.
"""
import hashlib
import json
import os
import re
import sys

sys.path.insert(0, os.path.dirname(os.path.abspath(__file__)))
import rstok  # noqa: E402


VACUITY = False
# unit ident -> level: 1 = drop in-body hints (`at` anchors), 2 = also make the unit external_body (contract kept for
# callers), 3 = leave the function unannotated. Used to confine a unit whose spliced text no longer compiles.
DEGRADE = {}


class LostAnchor(Exception):
    pass


class Directive:
    def __init__(self, name, arg, lineno):
        self.name = name
        self.arg = arg
        self.text = []
        self.lineno = lineno

    def body(self):
        return '\n'.join(self.text).strip('\n')


def parse_sidecar(path):
    """Returns list of (file, [Directive])."""
    files = []
    cur = None
    d = None
    with open(path) as f:
        for ln, line in enumerate(f, 1):
            line = line.rstrip('\n')
            if line.startswith('#@#'):
                continue  # sidecar comment
            if line.startswith('#@'):
                parts = line[2:].strip().split(None, 1)
                name = parts[0]
                arg = parts[1] if len(parts) > 1 else ''
                if name == 'file':
                    cur = (arg.strip(), [])
                    files.append(cur)
                    d = None
                    continue
                if cur is None:
                    raise SystemExit('%s:%d: directive before #@ file' % (path, ln))
                d = Directive(name, arg.strip(), '%s:%d' % (path, ln))
                cur[1].append(d)
            else:
                if d is not None:
                    d.text.append(line)
                elif line.strip():
                    raise SystemExit('%s:%d: text outside directive' % (path, ln))
    return files


class Unit:
    def __init__(self, file, path, props, assumed, lineno):
        self.file = file
        self.path = path
        self.props = props
        self.assumed = assumed
        self.lineno = lineno
        self.ret = None
        self.sig = None
        self.attr = None
        self.loops = {}
        self.ats = []  # (where, pos, text)
        self.rewrites = []  # (rule, regex, template)
        self.uid = None
        self.orig_sha = None
        self.orig_lines = None
        self.rewrites_applied = []
        self.n_splices = 0
        self.kind = 'fn'

    def ident(self):
        return '%s :: %s' % (self.file, self.path)


def code_sha(text):
    """sha256 of the code with comments removed and whitespace normalised: the text hash used for `assumed` functions and the
    evidence must not change when only a comment or the layout changes"""
    t = re.sub(r'//[^\n]*', '', text)
    t = re.sub(r'/\*.*?\*/', '', t, flags=re.S)
    return hashlib.sha256(' '.join(t.split()).encode()).hexdigest()


def parse_props(arg):
    """'<path> props=C01,C02 assumed' -> (path, [props], flags)"""
    flags = set()
    props = []
    toks = arg.split()
    keep = []
    for t in toks:
        if t.startswith('props='):
            # `C04!` = this unit speaks for C04 through its SAFETY obligations only (overflow, bounds, unwrap, callee
            # preconditions), not through its functional clauses: a helper on the attacker's path computing a wrong value is
            # not a totality violation
            raw = [p for p in t[6:].split(',') if p]
            props = [p.rstrip('!') for p in raw]
            flags.update('safety_only:' + p.rstrip('!') for p in raw if p.endswith('!'))
        elif t in ('assumed', 'bounded', 'nowrap'):
            flags.add(t)
        else:
            keep.append(t)
    return ' '.join(keep), props, flags


def split_rewrite(d):
    body = '\n'.join(d.text)
    if '\n==>\n' not in '\n' + body + '\n':
        raise SystemExit('%s: rewrite needs "==>" line' % d.lineno)
    a, b = ('\n' + body + '\n').split('\n==>\n', 1)
    return d.arg.split()[0], a.strip('\n'), b.strip('\n')


def load_contracts(cdir, only=None):
    """-> dict file -> {'top':[], 'bottom':[(text,props)], 'filerewrites':[], 'wraps':[], 'befores':[], 'units':[]}"""
    out = {}
    for root, _, names in os.walk(cdir):
        for n in sorted(names):
            if not n.endswith('.vc'):
                continue
            if only is not None and n[:-3] not in only:
                continue
            for file, ds in parse_sidecar(os.path.join(root, n)):
                fc = out.setdefault(file, {'top': [], 'bottom': [], 'filerewrites': [], 'wraps': [], 'befores': [],
                                           'units': []})
                unit = None
                for d in ds:
                    if d.name == 'top':
                        fc['top'].append(d.body())
                    elif d.name == 'bottom':
                        _, props, _ = parse_props(d.arg)
                        fc['bottom'].append((d.body(), props, d.lineno))
                    elif d.name == 'filerewrite':
                        fc['filerewrites'].append(split_rewrite(d) + (d.lineno,))
                    elif d.name == 'wrapconsts':
                        fc['wrapconsts'] = True
                        for line in d.text:
                            if '==' in line:
                                k, v = line.split('==', 1)
                                fc.setdefault('constspecs', {})[k.strip()] = v.strip()
                    elif d.name == 'wrap':
                        kind, path = d.arg.split(None, 1)
                        fc['wraps'].append((kind, path, d.lineno))
                    elif d.name == 'before':
                        kind, path = d.arg.split(None, 1)
                        fc['befores'].append((kind, path, d.body(), d.lineno))
                    elif d.name == 'fn':
                        path, props, flags = parse_props(d.arg)
                        unit = Unit(file, path, props, 'assumed' in flags, d.lineno)
                        unit.bounded = 'bounded' in flags
                        unit.nowrap = 'nowrap' in flags
                        unit.safety_only = sorted(f.split(':', 1)[1] for f in flags if f.startswith('safety_only:'))
                        fc['units'].append(unit)
                    elif d.name in ('ret', 'sig', 'attr', 'loop', 'at', 'rewrite'):
                        if unit is None:
                            raise SystemExit('%s: %s outside #@ fn' % (d.lineno, d.name))
                        if d.name == 'ret':
                            unit.ret = d.arg
                        elif d.name == 'sig':
                            unit.sig = d.body()
                        elif d.name == 'attr':
                            unit.attr = d.body()
                        elif d.name == 'loop':
                            unit.loops[int(d.arg)] = d.body()
                        elif d.name == 'at':
                            m = re.match(r'(body|loop \d+|block \d+) (entry|end|before \d+|after \d+|before last|(?:before|after) ~.+)$', d.arg)
                            if not m:
                                raise SystemExit('%s: bad anchor %r' % (d.lineno, d.arg))
                            unit.ats.append((m.group(1), m.group(2), d.body(), d.lineno))
                        elif d.name == 'rewrite':
                            unit.rewrites.append(split_rewrite(d) + (d.lineno,))
                    else:
                        raise SystemExit('%s: unknown directive %s' % (d.lineno, d.name))
    return out


def apply_regex(text, regex, template):
    rx = re.compile(regex, re.S)
    return rx.subn(template, text)


def find_one(items, kind, path, what):
    res = rstok.find_item(items, kind, path)
    if len(res) != 1:
        raise LostAnchor('%s: %s %r matches %d items' % (what, kind, path, len(res)))
    return res[0]


def annotate_file(src, fc, relfile, uid_start=0):
    """Returns (new_text, unit_records, lost) where lost is a list of (unit, reason)."""
    lost = []
    records = []
    # 1. file-level rewrites
    filerw = []
    for rule, rx, tmpl, lineno in fc['filerewrites']:
        src, n = apply_regex(src, rx, tmpl)
        filerw.append({'rule': rule, 'regex': rx, 'count': n, 'at': lineno})
    # 2. per-unit rewrites on the function text (descending offset so that offsets stay valid)
    toks = rstok.tokenize(src)
    items = rstok.parse_items(src, toks, 0, len(toks), None)
    located = []
    for u in fc['units']:
        try:
            it = find_one(items, 'fn', u.path, u.lineno)
        except LostAnchor as e:
            lost.append((u, str(e)))
            continue
        located.append((it.start, it.end, u))
    located.sort(key=lambda x: -x[0])
    for a, b, u in located:
        text = src[a:b]
        u.orig_sha = code_sha(text)
        u.orig_lines = (src.count('\n', 0, a) + 1, src.count('\n', 0, b) + 1)
        new = text
        for rule, rx, tmpl, lineno in u.rewrites:
            new, n = apply_regex(new, rx, tmpl)
            u.rewrites_applied.append({'rule': rule, 'regex': rx, 'count': n, 'at': lineno})
        if new != text:
            src = src[:a] + new + src[b:]
    # 3. re-tokenise and compute insertions
    toks = rstok.tokenize(src)
    items = rstok.parse_items(src, toks, 0, len(toks), None)
    ins = []  # (offset, order, text)
    order = [0]

    def add(off, text):
        order[0] += 1
        ins.append((off, order[0], text))

    uid = uid_start
    impl_wraps = {}
    lost_units = set(id(u) for u, _ in lost)

    def place_unit(u, it, level, uid_str):
        """Insertions for unit u at degradation `level` (0 full, 1 without in-body hints, 2 external_body with contract).
        Raises LostAnchor."""
        my = []

        def madd(off, text):
            my.append((off, text))

        nowrap = it.parent is not None and it.parent.kind in ('impl', 'trait')
        u_assumed = u.assumed or level >= 2
        head = ('/*VU-BEGIN %s*/\n' if nowrap else 'verus! { /*VU-BEGIN %s*/\n') % uid_str
        if u.attr:
            head += u.attr + '\n'
        if u_assumed:
            head += '#[verifier::external_body]\n'
        madd(it.start, head)
        madd(it.end, ('\n/*VU-END %s*/\n' if nowrap else '\n/*VU-END %s*/ } // verus!\n') % uid_str)
        if u.ret:
            if it.arrow is None:
                raise LostAnchor('%s: fn %s has no return type to name' % (u.lineno, u.path))
            q = it.arrow + 1
            last = q
            while q < it.body_open:
                t = toks[q]
                if t.k == 'id' and t.s == 'where':
                    break
                if t.k == 'p' and t.s in ('(', '['):
                    q = rstok.match_close(toks, q)
                last = q
                q += 1
            madd(toks[it.arrow].b, ' (%s: ' % u.ret)
            madd(toks[last].b, ')')
        if u.sig:
            madd(toks[it.body_open].a, '\n' + u.sig + '\n')
        loops = rstok.body_loops(toks, it.body_open, it.body_close)
        blocks = rstok.body_blocks(toks, it.body_open, it.body_close)
        for k, text in (u.loops.items() if level < 2 else []):
            if k < 1 or k > len(loops):
                raise LostAnchor('%s: fn %s has %d loops, loop %d wanted' % (u.lineno, u.path, len(loops), k))
            madd(toks[loops[k - 1][1]].a, '\n' + text + '\n')
        for where, pos, text, lineno in (u.ats if level < 1 else []):
            if where == 'body':
                o, c = it.body_open, it.body_close
            elif where.startswith('loop'):
                k = int(where.split()[1])
                if k < 1 or k > len(loops):
                    raise LostAnchor('%s: loop %d not found in %s' % (lineno, k, u.path))
                o, c = loops[k - 1][1], loops[k - 1][2]
            else:
                k = int(where.split()[1])
                if k < 0 or k >= len(blocks):
                    raise LostAnchor('%s: block %d not found in %s' % (lineno, k, u.path))
                o, c = blocks[k].open, blocks[k].close
            if pos == 'entry':
                madd(toks[o].b, '\n' + text + '\n')
                continue
            st = rstok.statements(toks, o, c)
            if pos == 'end':
                if st and not st[-1][2]:
                    madd(toks[st[-1][0]].a, text + '\n')  # before the tail expression
                else:
                    madd(toks[c].a, text + '\n')
                continue
            if pos == 'before last':
                if not st:
                    raise LostAnchor('%s: empty block in %s' % (lineno, u.path))
                madd(toks[st[-1][0]].a, text + '\n')
                continue
            kind, n = pos.split(None, 1)
            if n.startswith('~'):
                # content anchor: the first statement of the block whose text matches the regex (robust against inserted,
                # removed or reordered statements elsewhere in the block)
                spec = n[1:].strip()
                nth = 1
                mm = re.match(r'#(\d+)\s+(.*)$', spec)  # `~#2 regex` = second matching statement
                if mm:
                    nth, spec = int(mm.group(1)), mm.group(2)
                rx = re.compile(spec)
                hits = [i for i, (a_, z_, _) in enumerate(st, 1) if rx.search(' '.join(src[toks[a_].a:toks[z_].b].split()))]
                if len(hits) < nth:
                    raise LostAnchor('%s: no statement #%d matching %r in %s' % (lineno, nth, spec, u.path))
                n = hits[nth - 1]
            n = int(n)
            if n < 1 or n > len(st):
                raise LostAnchor('%s: statement %d not found (%d statements) in %s' % (lineno, n, len(st), u.path))
            if kind == 'before':
                madd(toks[st[n - 1][0]].a, text + '\n')
            else:
                madd(toks[st[n - 1][1]].b, '\n' + text + '\n')
        if VACUITY and not u_assumed:
            # after the entry hints (a `broadcast use` must stay first in its block)
            madd(toks[it.body_open].b, '\nproof { assert(false); } // vacuity probe\n')
        return my

    for u in fc['units']:
        if id(u) in lost_units:
            continue
        try:
            it = find_one(items, 'fn', u.path, u.lineno)
            if it.body_open is None:
                raise LostAnchor('%s: fn %s has no body' % (u.lineno, u.path))
        except LostAnchor as e:
            lost.append((u, str(e)))
            u.uid = None
            continue
        uid += 1
        uid_str = 'U%04d' % uid
        level = DEGRADE.get(u.ident(), 0)
        my = None
        reason = None
        while level <= 2:
            try:
                my = place_unit(u, it, level, uid_str)
                break
            except LostAnchor as e:
                # an anchor of this unit no longer resolves: keep the unit (callers still see its contract) but with
                # less of the proof text; the unit is then reported undecided, never discharged
                reason = str(e)
                level += 1
        if my is None:
            uid -= 1
            u.uid = None
            lost.append((u, reason or 'degraded: unit left unannotated after its spliced text failed to compile'))
            continue
        u.uid = uid_str
        u.degraded = level
        u.degrade_reason = reason
        if it.parent is not None and it.parent.kind in ('impl', 'trait'):
            # verus!{} at impl-item level breaks associated functions without a receiver: wrap the whole
            # impl once and mark the sibling functions that are not under contract #[verifier::external]
            u.nowrap = True
            impl_wraps.setdefault(id(it.parent), (it.parent, set()))[1].add(id(it))
        for off, text in my:
            add(off, text)
        u.n_splices = len(my)
    wrapn = 0
    wraprecs = []
    for parent, members in impl_wraps.values():
        add(parent.start, 'verus! {\n')
        add(parent.end, '\n} // verus!\n')
        n_ext = 0
        assumed_sibs = []
        is_trait_impl = parent.kind == 'impl' and re.search(r'\bfor\b', parent.header or '') is not None
        for sib in parent.children:
            if sib.kind == 'fn' and id(sib) not in members and sib.body_open is not None:
                if is_trait_impl:
                    # Verus does not allow a single item of a trait impl to be external: the method keeps the
                    # TRAIT's contract, assumed (external_body) — recorded as an assumption
                    add(sib.kw, '#[verifier::external_body] ')
                    assumed_sibs.append({'name': sib.name, 'ident': '%s :: %s :: %s' % (relfile, parent.key(), sib.name),
                                         'sha256': code_sha(src[sib.start:sib.end])})
                else:
                    add(sib.kw, '#[verifier::external] ')
                n_ext += 1
        wraprecs.append({'kind': 'impl', 'path': parent.key(), 'siblings_marked_external': n_ext,
                         'trait_impl_methods_assumed': assumed_sibs})
    if fc.get('wrapconsts'):
        INT = ('usize', 'u8', 'u16', 'u32', 'u64', 'u128', 'i32', 'i64', 'isize')
        for it in items:
            if it.kind != 'const':
                continue
            # const NAME : TYPE = init ;
            ts = [t for t in toks[it.tok_lo:it.tok_hi + 1] if t.k != 'com']
            names = [i for i, t in enumerate(ts) if t.k == 'id' and t.s == 'const']
            ci = names[0]
            if ts[ci + 2].s != ':' or ts[ci + 3].s not in INT:
                continue
            name = ts[ci + 1].s
            spec = fc.get('constspecs', {}).get(name)
            add(it.start, 'verus! {\n')
            widened = not any(t.k == 'id' and t.s == 'pub' for t in ts[:ci])
            if widened:
                add(ts[ci].a, 'pub ')  # rule R7: visibility widening, no run-time meaning
            if spec is not None:
                # exec const with an ensures clause (initialiser calls a const fn)
                eq = [t for t in ts if t.s == '='][0]
                semi = toks[it.tok_hi]
                add(ts[ci].a, 'exec ')
                proof = ''
                if ';;' in spec:
                    spec, proof = [x.strip() for x in spec.split(';;', 1)]
                    proof = 'proof { %s } ' % proof
                add(eq.a, '\n    ensures %s == %s\n{ %s' % (name, spec, proof))
                # drop the '=' by commenting it out: insert comment markers around it
                add(eq.a, '/*')
                add(eq.b, '*/')
                add(semi.a, ' }')
                add(semi.a, '/*')
                add(semi.b, '*/')
            add(it.end, '\n} // verus!\n')
            wraprecs.append({'kind': 'const', 'path': name, 'spec': spec, 'R7_widened': widened})
    for kind, path, lineno in fc['wraps']:
        try:
            it = find_one(items, kind, path, lineno)
        except LostAnchor as e:
            lost.append((None, str(e)))
            continue
        wrapn += 1
        add(it.start, 'verus! {\n')
        add(it.end, '\n} // verus!\n')
        wraprecs.append({'kind': kind, 'path': path})
    for kind, path, text, lineno in fc['befores']:
        try:
            it = find_one(items, kind, path, lineno)
        except LostAnchor as e:
            lost.append((None, str(e)))
            continue
        # after wrap opening (order matters: wraps were added first at same offset)
        add(it.start, text + '\n')
    # top: before first item
    if fc['top']:
        first = None
        for it in items:
            first = it
            break
        # skip inner attributes (#![..]) and leading comments at file top
        off = 0
        i = 0
        while i < len(toks):
            t = toks[i]
            if t.k == 'com':
                i += 1
                continue
            if t.s == '#' and toks[i + 1].s == '!':
                i = rstok.match_close(toks, i + 2) + 1
                off = toks[i - 1].b
                continue
            break
        # doc comments (//!) at the top must stay before items: place after them
        j = 0
        while j < len(toks) and toks[j].k == 'com' and toks[j].s.startswith('//!'):
            off = max(off, toks[j].b)
            j += 1
        ins.append((off, -1, '\n' + '\n'.join(fc['top']) + '\n'))
    # apply insertions: ascending offset, then by order; wrappers at same offset: begin-wrap must come
    # before text inserted "before item", end-wrap after. Order of registration handles it.
    ins.sort(key=lambda x: (x[0], x[1]))
    out = []
    last = 0
    for off, _, text in ins:
        out.append(src[last:off])
        out.append(text)
        last = off
    out.append(src[last:])
    new = ''.join(out)
    bottoms = []
    for text, props, lineno in fc['bottom']:
        uid += 1
        b = 'B%04d' % uid
        new += '\n/*VU-BEGIN %s*/\n%s\n/*VU-END %s*/\n' % (b, text, b)
        bottoms.append({'uid': b, 'props': props, 'at': lineno, 'file': relfile})
    for u in fc['units']:
        if u.uid:
            records.append(u)
    return new, records, lost, bottoms, filerw, wraprecs, uid


def unit_ranges(text):
    """uid -> (start_byte, end_byte, start_line, end_line) from the VU markers."""
    res = {}
    for m in re.finditer(r'/\*VU-BEGIN ([UB]\d+)\*/', text):
        uid = m.group(1)
        e = text.find('/*VU-END %s*/' % uid, m.end())
        res[uid] = (m.start(), e, text.count('\n', 0, m.start()) + 1, text.count('\n', 0, e) + 1)
    return res


def annotate_tree(repo_src, contracts_dir, spec_dir, out_src, only=None, specs=None):
    """repo_src: /repo/src (read only). out_src: scratch/src (already a copy of repo_src).
    only: restrict sidecars to these basenames (development); specs: restrict spec modules likewise."""
    contracts = load_contracts(contracts_dir, only)
    index = {'units': [], 'bottoms': [], 'lost': [], 'filerewrites': [], 'wraps': []}
    uid = 0
    for rel, fc in sorted(contracts.items()):
        p = os.path.join(out_src, os.path.relpath(rel, 'src'))
        if not os.path.exists(p):
            for u in fc['units']:
                index['lost'].append({'unit': u.ident(), 'props': u.props, 'reason': 'file %s missing' % rel})
            continue
        with open(p) as f:
            src = f.read()
        new, recs, lost, bottoms, filerw, wraprecs, uid = annotate_file(src, fc, rel, uid)
        with open(p, 'w') as f:
            f.write(new)
        ranges = unit_ranges(new)
        for u in recs:
            r = ranges.get(u.uid)
            index['units'].append({
                'uid': u.uid, 'file': rel, 'path': u.path, 'props': u.props, 'safety_only': getattr(u, 'safety_only', []), 'assumed': u.assumed,
                'bounded': getattr(u, 'bounded', False), 'degraded': getattr(u, 'degraded', 0),
                'degrade_reason': getattr(u, 'degrade_reason', None), 'ident': u.ident(),
                'orig_sha256': u.orig_sha, 'orig_lines': u.orig_lines, 'splices': u.n_splices,
                'rewrites': u.rewrites_applied, 'range': r,
                'clauses': count_clauses(u),
            })
        for b in bottoms:
            b['range'] = ranges.get(b['uid'])
            index['bottoms'].append(b)
        for u, reason in lost:
            index['lost'].append({'unit': u.ident() if u else rel, 'props': u.props if u else [], 'reason': reason})
        for r in filerw:
            r['file'] = rel
            index['filerewrites'].append(r)
        for w in wraprecs:
            w['file'] = rel
            index['wraps'].append(w)
    # spec modules
    mods = []
    for n in sorted(os.listdir(spec_dir)):
        if n.endswith('.rs'):
            if specs is not None and n[:-3] not in specs:
                continue
            with open(os.path.join(spec_dir, n)) as f:
                t = f.read()
            with open(os.path.join(out_src, n), 'w') as f:
                f.write(t)
            mods.append(n[:-3])
    lib = os.path.join(out_src, 'lib.rs')
    with open(lib) as f:
        t = f.read()
    decl = ''.join('#[allow(unused, non_snake_case, non_camel_case_types)]\npub mod %s;\n' % m for m in mods)
    if 'verus! { global layout usize is size == 8; }' not in t:
        # after the `#[macro_use] mod error;` so macros stay in scope order; simplest: append at end
        t = t + '\n#[allow(unused_imports)]\nuse vstd::prelude::*;\nverus! { global layout usize is size == 8; }\n' + decl
    with open(lib, 'w') as f:
        f.write(t)
    index['spec_modules'] = mods
    return index


def count_clauses(u):
    n = 0
    if u.sig:
        # count top-level commas roughly: each line ending with ',' or keyword line
        for line in u.sig.split('\n'):
            s = line.strip()
            if not s or s.startswith('//'):
                continue
            if s in ('requires', 'ensures', 'recommends', 'decreases'):
                continue
            n += 1
    for t in u.loops.values():
        for line in t.split('\n'):
            s = line.strip()
            if s and s not in ('invariant', 'decreases', 'invariant_except_break', 'ensures') and not s.startswith('//'):
                n += 1
    return n


if __name__ == '__main__':
    import shutil
    repo, cdir, sdir, out = sys.argv[1:5]
    if os.path.exists(out):
        shutil.rmtree(out)
    shutil.copytree(os.path.join(repo, 'src'), os.path.join(out, 'src'))
    idx = annotate_tree(os.path.join(repo, 'src'), cdir, sdir, os.path.join(out, 'src'))
    json.dump(idx, open(os.path.join(out, 'index.json'), 'w'), indent=1)
    print('units', len(idx['units']), 'lost', len(idx['lost']))
    for l in idx['lost']:
        print('LOST', l)
