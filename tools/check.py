#!/usr/bin/env python3
"""check.py <PROPERTY> [--tier quick|thorough] [--replay FILE]

Decides one property of /verif/properties.jsonl for /repo's *current working tree*:
snapshot -> splice contracts -> Verus on the real crate -> per-unit verdicts -> evidence.

exit 0  every unit of the property discharged (known findings are printed, not alarmed)
exit 1  at least one obligation refuted: `VIOLATION property=<id> replay=<path>[ no-failing-input-found]`
exit 2  undecided (rlimit, unsupported construct, lost anchor, tool error) — never a VIOLATION line
"""
import hashlib
import json
import os
import re
import shutil
import subprocess
import sys
import time

sys.path.insert(0, os.path.dirname(os.path.abspath(__file__)))
import engine  # noqa: E402
import annotate  # noqa: E402

VERIF = engine.VERIF
EVID = os.path.join(VERIF, 'evidence')
REPLAY_OUT = os.path.join(VERIF, 'replay', 'out')
PROPS = os.path.join(VERIF, 'props.json')


def load_props_cfg():
    with open(PROPS) as f:
        return json.load(f)


def load_known():
    known, fixed = [], []
    p = os.path.join(VERIF, 'known_findings.txt')
    if not os.path.exists(p):
        return known, fixed
    for line in open(p):
        line = line.strip()
        if not line or line.startswith('#'):
            continue
        if line.startswith('fixed:'):
            fixed.append(line)
            continue
        if line.startswith('finding:'):
            d = {}
            for m in re.finditer(r'(\w+)=("([^"]*)"|\S+)', line):
                d[m.group(1)] = m.group(3) if m.group(3) is not None else m.group(2)
            known.append(d)
    return known, fixed


def is_known(known, prop, unit, err):
    for k in known:
        if k.get('property') != prop:
            continue
        if k.get('unit') and k['unit'] != unit['path']:
            continue
        if k.get('file') and k['file'] != unit['file']:
            continue
        if k.get('message') and k['message'] not in err['message']:
            continue
        hay = (err.get('clause') or '') + ' ' + (err.get('text') or '')
        if k.get('clause') and k['clause'] not in hay:
            continue
        return k
    return None


def scan_assumptions(spec_dir, contracts_dir):
    """Mechanical scan for everything that is assumed rather than proved."""
    found = []
    pats = [('assume_specification', r'assume_specification\s*(<[^\[]*>)?\s*\[\s*([^\]]+?)\s*\]'),
            ('external_body', r'#\[verifier::external_body\]\s*(?:#\[[^\]]*\]\s*)*(?:pub\s+)?(?:(?:proof|exec|const)\s+)?(?:fn|struct)\s+(\w+)'),
            ('uninterp spec fn', r'uninterp\s+spec\s+fn\s+(\w+)'),
            ('admit', r'\badmit\s*\(\s*\)'),
            ('assume', r'\bassume\s*\(([^;]*)\)\s*;'),
            ('axiom (broadcast/proof fn external_body)', r'#\[verifier::external_body\]\s*(?:pub\s+)?(?:broadcast\s+)?proof\s+fn\s+(\w+)')]
    for d in (spec_dir, contracts_dir):
        for root, _, names in os.walk(d):
            for n in sorted(names):
                p = os.path.join(root, n)
                try:
                    t = open(p).read()
                except Exception:
                    continue
                for label, rx in pats:
                    for m in re.finditer(rx, t):
                        g = m.group(m.lastindex) if m.lastindex else ''
                        found.append('%s: %s (%s)' % (label, ' '.join(g.split())[:120], os.path.relpath(p, VERIF)))
    return sorted(set(found))


def spec_modules_for(prop, spec_dir):
    """spec files carry a header line `//@ props=C01,C02` or `//@ props=*`."""
    mods = []
    for n in sorted(os.listdir(spec_dir)):
        if not n.endswith('.rs'):
            continue
        head = open(os.path.join(spec_dir, n)).read(2000)
        m = re.search(r'//@ props=(\S+)', head)
        if not m or m.group(1) == '*' or prop in m.group(1).split(','):
            mods.append(n[:-3])
    return mods


def write_json(path, obj):
    os.makedirs(os.path.dirname(path), exist_ok=True)
    tmp = path + '.tmp'
    with open(tmp, 'w') as f:
        json.dump(obj, f, indent=1)
    os.replace(tmp, path)


def run_witness(prop, tier, seed, hints):
    """Directed witness search on the REAL crate (replay/). Returns dict or None."""
    runner = os.path.join(VERIF, 'replay', 'run_witness.py')
    if not os.path.exists(runner):
        return None
    try:
        r = subprocess.run([sys.executable, runner, prop, '--tier', tier, '--seed', str(seed)],
                           stdout=subprocess.PIPE, stderr=subprocess.PIPE, text=True, timeout=1500)
    except subprocess.TimeoutExpired:
        return {'status': 'timeout'}
    try:
        return json.loads(r.stdout.strip().split('\n')[-1])
    except Exception:
        return {'status': 'error', 'stdout': r.stdout[-2000:], 'stderr': r.stderr[-2000:]}


def main():
    t0 = time.time()
    args = sys.argv[1:]
    if not args:
        raise SystemExit(__doc__)
    prop = args[0]
    tier = os.environ.get('VERIF_TIER', 'quick')
    replay = None
    i = 1
    while i < len(args):
        if args[i] == '--tier':
            tier = args[i + 1]
            i += 2
        elif args[i] == '--replay':
            replay = args[i + 1]
            i += 2
        else:
            raise SystemExit('unknown argument ' + args[i])
    seed = int(os.environ.get('VERIF_SEED', '0') or 0)
    if replay:
        return do_replay(replay)
    cfg = load_props_cfg().get(prop)
    if cfg is None:
        raise SystemExit('property %s is not claimed (see MANIFEST.json not_applicable)' % prop)
    engine.ensure_deps()
    spec_dir = os.path.join(VERIF, 'spec')
    contracts_dir = os.path.join(VERIF, 'contracts')
    scratch, index = engine.snapshot_and_annotate(contracts_dir, spec_dir)
    evidence_path = os.path.join(EVID, prop + '.json')
    try:
        rc = decide(prop, tier, seed, cfg, scratch, index, spec_dir, contracts_dir, evidence_path, t0)
    finally:
        shutil.rmtree(scratch, ignore_errors=True)
    sys.exit(rc)


def decide(prop, tier, seed, cfg, scratch, index, spec_dir, contracts_dir, evidence_path, t0):
    units = [u for u in index['units'] if prop in u['props']]
    bottoms = [b for b in index['bottoms'] if prop in b['props'] or not b['props']]
    lost = [l for l in index['lost'] if prop in l['props'] or not l['props']]
    files = sorted(set(u['file'] for u in units) | set(b['file'] for b in bottoms if prop in b['props']))
    modules = [engine.module_of(f) for f in files] + spec_modules_for(prop, spec_dir)
    rlimit = cfg.get('rlimit', 30)
    runs = []
    res = engine.run_verus(scratch, modules=modules, rlimit=rlimit, seed=(seed if seed else None))
    runs.append(res)
    verdicts, global_errors = engine.classify(index, res, scratch)
    fb = engine.function_breakdown(res)
    known, fixed = load_known()

    proved, failed, undecided, assumed = [], [], [], []
    for u in units:
        if u['assumed']:
            assumed.append(u)
            continue
        v = verdicts[u['uid']]
        if v['verdict'] == 'discharged':
            proved.append(u)
        elif v['verdict'] == 'failed':
            failed.append(u)
        else:
            undecided.append(u)
    bottom_bad = [b for b in bottoms if verdicts[b['uid']]['verdict'] != 'discharged']
    hard_global = [g for g in global_errors]
    vres = (res.get('json') or {}).get('verification-results') or {}
    n_verified = vres.get('verified', 0)

    # thorough: extra solver seeds (stability) and the vacuity pass
    extra = {}
    if tier == 'thorough' and not hard_global and not failed:
        flips = []
        for s in (seed + 1, seed + 2):
            r2 = engine.run_verus(scratch, modules=modules, rlimit=rlimit, seed=s)
            runs.append(r2)
            v2, g2 = engine.classify(index, r2, scratch)
            for u in units:
                if not u['assumed'] and v2[u['uid']]['verdict'] != verdicts[u['uid']]['verdict']:
                    flips.append({'unit': u['path'], 'seed': s, 'verdict': v2[u['uid']]['verdict']})
        extra['solver_seeds'] = [seed, seed + 1, seed + 2]
        extra['unstable_units'] = flips
        if flips:
            for f in flips:
                for u in list(proved):
                    if u['path'] == f['unit']:
                        proved.remove(u)
                        undecided.append(u)
        vac = vacuity_pass(prop, modules, rlimit, spec_dir, contracts_dir)
        extra['vacuity'] = vac
        if vac['vacuous']:
            for name in vac['vacuous']:
                for u in list(proved):
                    if u['path'] == name:
                        proved.remove(u)
                        undecided.append(u)

    # ---- report -------------------------------------------------------------------------------
    violations = []
    known_hits = []
    os.makedirs(REPLAY_OUT, exist_ok=True)
    witness = None
    if failed:
        new_fail = []
        for u in failed:
            for e in verdicts[u['uid']]['errors']:
                if e['kind'] != 'failed':
                    continue
                k = is_known(known, prop, u, e)
                if k:
                    known_hits.append((k, u, e))
                else:
                    new_fail.append((u, e))
        if new_fail:
            witness = run_witness(prop, tier, seed, new_fail)
            for n, (u, e) in enumerate(new_fail):
                oid = '%s::%s#%d' % (u['path'].replace(' ', ''), e['message'].split(':')[0].replace(' ', '_'), n)
                rp = os.path.join(REPLAY_OUT, '%s-%s.json' % (prop, hashlib.sha1(oid.encode()).hexdigest()[:10]))
                write_json(rp, {
                    'property': prop, 'obligation': oid, 'unit': {'file': u['file'], 'fn': u['path'],
                                                                 'orig_sha256': u['orig_sha256'],
                                                                 'orig_lines': u['orig_lines']},
                    'clause': e.get('clause'), 'code': e.get('text'), 'message': e['message'],
                    'verifier_output': e['rendered'], 'checker_cmd': res['cmd'],
                    'witness': witness,
                    'replay_cmd': './check %s --replay %s' % (prop, rp),
                })
                found = bool(witness and witness.get('status') == 'found')
                violations.append((rp, found, oid))
    seen = set()
    for k, u, e in known_hits:
        key = (k.get('what'), u['path'])
        if key in seen:
            continue
        seen.add(key)
        print('KNOWN-FINDING: property=%s %s [%s :: %s]' % (prop, k.get('what', e['message']), u['file'], u['path']))

    status = 'held'
    if violations:
        status = 'violation'
    elif hard_global or undecided or lost or bottom_bad or res['rc'] not in (0, 1) or (not proved and not known_hits):
        status = 'undecided'
    if status == 'undecided':
        # fallback: only a refutation that replays on the real code may turn "undecided" into a violation
        witness = run_witness(prop, tier, seed, [])
        if witness and witness.get('status') == 'found':
            rp = os.path.join(REPLAY_OUT, '%s-witness.json' % prop)
            write_json(rp, {'property': prop, 'obligation': 'undecided units; concrete counterexample found by replay',
                            'witness': witness, 'replay_cmd': './check %s --replay %s' % (prop, rp)})
            violations.append((rp, True, 'witness'))
            status = 'violation'

    wall = time.time() - t0
    # evidence
    per_unit = []
    smt_us = 0
    for u in units:
        mod = engine.module_of(u['file'])
        fname = u['path'].split(' :: ')[-1]
        times = [f for n, fs in fb.items() for f in fs
                 if n.split('::')[-1] == fname and ('dryoc::' + mod) in n]
        t_us = sum(f['time-micros'] for f in times)
        smt_us += t_us
        per_unit.append({
            'file': u['file'], 'fn': u['path'], 'orig_sha256': u['orig_sha256'], 'orig_lines': u['orig_lines'],
            'verdict': 'assumed' if u['assumed'] else verdicts[u['uid']]['verdict'],
            'backend': 'Verus 0.2026.09.13 / Z3', 'smt_time_ms': t_us / 1000.0,
            'rlimit_used': sum(f.get('rlimit', 0) for f in times),
            'contract_clauses': u['clauses'], 'splices': u['splices'],
            'rewrites': [{'rule': r['rule'], 'count': r['count']} for r in u['rewrites']],
            'errors': [{'message': e['message'], 'clause': e.get('clause'), 'code': e.get('text')}
                       for e in verdicts[u['uid']]['errors']],
        })
    n_non_assumed = len([u for u in units if not u['assumed']])
    obligations = sum(1 + u['clauses'] for u in units if not u['assumed'])
    discharged = sum(1 + u['clauses'] for u in proved)
    samples = []
    for u in (proved[:3] + failed[:2]):
        samples.append({'unit': '%s :: %s' % (u['file'], u['path']), 'verdict': verdicts[u['uid']]['verdict'],
                        'contract_clauses': u['clauses']})
    trusted = ['Verus 0.2026.09.13 + Z3 (soundness)', 'rustc 1.98.1 semantics == repository toolchain semantics',
               'annotate.py rewrite rules R1-R7 (DESIGN.md 3.1) preserve semantics']
    trusted += ['assumed unit contract: %s :: %s' % (u['file'], u['path']) for u in assumed]
    trusted += scan_assumptions(spec_dir, contracts_dir)
    ev = {
        'property_id': prop, 'tier': tier, 'seed': seed, 'level': 'proof',
        'coverage': {
            'obligations': obligations, 'discharged': discharged,
            'obligation_rule': 'one per function under contract (Verus-generated safety conditions: overflow, bounds, '
                               'unwrap, callee preconditions) plus one per spliced requires/ensures/invariant clause; '
                               'a unit counts as discharged only if Verus reports no error inside it',
            'functions_under_contract': n_non_assumed, 'functions_discharged': len(proved),
            'functions_failed': len(failed), 'functions_undecided': len(undecided),
            'functions_assumed': len(assumed),
            'verus_verified_items': n_verified,
            'checker_cmd': res['cmd'], 'trusted_base': trusted,
            'units': per_unit, 'samples': samples or [{'note': 'no unit'}],
            'solver_time_ms_total': smt_us / 1000.0,
            'verus_runs': [{'rc': r['rc'], 'wall_s': round(r['wall_s'], 2)} for r in runs],
            'lost_anchors': lost, 'global_errors': [g['message'] for g in hard_global][:20],
            'file_rewrites': [r for r in index['filerewrites']],
            'repo_src_sha256': index['repo_src_sha256'],
            'known_findings_matched': [k.get('what') for k, _, _ in known_hits],
            'status': status,
            'not_decided': cfg.get('not_decided', []),
            'witness_search': witness,
            **extra,
        },
        'assumptions': cfg.get('assumptions', []),
        'wall_s': round(wall, 2),
        'violations': len(violations),
    }
    write_json(evidence_path, ev)

    if status == 'violation':
        for rp, found, oid in violations:
            print('VIOLATION property=%s replay=%s%s' % (prop, rp, '' if found else ' no-failing-input-found'))
        for u in failed:
            for e in verdicts[u['uid']]['errors']:
                sys.stderr.write('[%s :: %s] %s\n%s\n' % (u['file'], u['path'], e['message'], e['rendered']))
        return 1
    if status == 'undecided':
        reasons = []
        for l in lost:
            reasons.append('lost anchor: %s' % l['reason'])
        for g in hard_global[:5]:
            reasons.append('tool: %s' % g['message'])
        for u in undecided:
            msgs = set(e['message'][:80] for e in verdicts[u['uid']]['errors'])
            reasons.append('%s: %s' % (u['path'], '; '.join(msgs) or 'unstable/vacuous'))
        for b in bottom_bad:
            reasons.append('spliced lemma block failed in %s' % b['file'])
        if not proved:
            reasons.append('no unit verified')
        print('UNDECIDED property=%s reason=%s' % (prop, ' | '.join(reasons)[:1500]))
        for g in hard_global[:5]:
            sys.stderr.write(g['rendered'] + '\n')
        if not res['diags']:
            sys.stderr.write(res['raw_err'][-3000:])
        return 2
    print('OK property=%s units=%d/%d obligations=%d wall=%.1fs' % (prop, len(proved), n_non_assumed, obligations, wall))
    return 0


def vacuity_pass(prop, modules, rlimit, spec_dir, contracts_dir):
    """Second annotated copy with `assert(false)` at the entry of every unit: each MUST be refuted,
    otherwise the unit's precondition is contradictory."""
    annotate.VACUITY = True
    try:
        scratch, index = engine.snapshot_and_annotate(contracts_dir, spec_dir)
    finally:
        annotate.VACUITY = False
    try:
        res = engine.run_verus(scratch, modules=modules, rlimit=rlimit)
        verdicts, glob = engine.classify(index, res, scratch)
        vac, ok = [], 0
        for u in index['units']:
            if prop not in u['props'] or u['assumed']:
                continue
            errs = verdicts[u['uid']]['errors']
            if any('assertion failed' in e['message'] for e in errs):
                ok += 1
            else:
                vac.append(u['path'])
        return {'probes': ok + len(vac), 'refuted_as_required': ok, 'vacuous': vac}
    finally:
        shutil.rmtree(scratch, ignore_errors=True)


def do_replay(path):
    d = json.load(open(path))
    print(json.dumps({k: d.get(k) for k in ('property', 'obligation', 'clause', 'message')}, indent=1))
    print(d.get('verifier_output', ''))
    w = d.get('witness')
    if w and w.get('status') == 'found':
        print('witness:', json.dumps(w, indent=1))
        cmd = w.get('rerun_cmd')
        if cmd:
            print('re-executing on the real code:', cmd)
            r = subprocess.run(cmd, shell=True, cwd=VERIF)
            sys.exit(1 if r.returncode != 0 else 0)
    else:
        print('no concrete failing input recorded (no-failing-input-found)')
    sys.exit(0)


if __name__ == '__main__':
    main()
