#!/usr/bin/env python3
"""check.py <PROPERTY> [--tier quick|thorough] [--replay FILE]

Decides one property of /verif/properties.jsonl for /repo's *current working tree*:
snapshot -> splice contracts -> Verus on the real crate -> per-unit verdicts -> evidence.

exit 0  every unit of the property discharged (known findings are printed, not alarmed)
exit 1  at least one obligation refuted: `VIOLATION property=<id> replay=<path>[ no-failing-input-found]`
exit 2  undecided (rlimit, unsupported construct, lost anchor, tool error) — never a VIOLATION line
"""
import hashlib
import json
import os
import re
import shutil
import subprocess
import sys
import time

sys.path.insert(0, os.path.dirname(os.path.abspath(__file__)))
import engine  # noqa: E402
import annotate  # noqa: E402

VERIF = engine.VERIF
EVID = os.environ.get('VERIF_EVIDENCE_DIR') or os.path.join(VERIF, 'evidence')
REPLAY_OUT = os.path.join(os.environ['VERIF_EVIDENCE_DIR'], 'replay_out') if os.environ.get('VERIF_EVIDENCE_DIR') else os.path.join(VERIF, 'replay', 'out')
PROPS = os.path.join(VERIF, 'props.json')


def load_props_cfg():
    with open(PROPS) as f:
        return json.load(f)


def load_known():
    known, fixed = [], []
    p = os.path.join(VERIF, 'known_findings.txt')
    if not os.path.exists(p):
        return known, fixed
    for line in open(p):
        line = line.strip()
        if not line or line.startswith('#'):
            continue
        if line.startswith('fixed:'):
            fixed.append(line)
            continue
        if line.startswith('finding:'):
            d = {}
            for m in re.finditer(r'(\w+)=("([^"]*)"|\S+)', line):
                d[m.group(1)] = m.group(3) if m.group(3) is not None else m.group(2)
            known.append(d)
    return known, fixed


def is_known(known, prop, unit, err):
    for k in known:
        if k.get('property') != prop:
            continue
        if k.get('unit') and k['unit'] != unit['path']:
            continue
        if k.get('file') and k['file'] != unit['file']:
            continue
        if k.get('message') and k['message'] not in err['message']:
            continue
        hay = (err.get('clause') or '') + ' ' + (err.get('text') or '')
        if k.get('clause') and k['clause'] not in hay:
            continue
        return k
    return None


def scan_assumptions(spec_dir, contracts_dir):
    """Mechanical scan for everything that is assumed rather than proved."""
    found = []
    pats = [('assume_specification', r'assume_specification\s*(<[^\[]*>)?\s*\[\s*([^\]]+?)\s*\]'),
            ('external_body', r'#\[verifier::external_body\]\s*(?:#\[[^\]]*\]\s*)*(?:pub\s+)?(?:(?:proof|exec|const)\s+)?(?:fn|struct)\s+(\w+)'),
            ('uninterp spec fn', r'uninterp\s+spec\s+fn\s+(\w+)'),
            ('admit', r'\badmit\s*\(\s*\)'),
            ('assume', r'\bassume\s*\(([^;]*)\)\s*;'),
            ('axiom (broadcast/proof fn external_body)', r'#\[verifier::external_body\]\s*(?:pub\s+)?(?:broadcast\s+)?proof\s+fn\s+(\w+)')]
    for d in (spec_dir, contracts_dir):
        for root, _, names in os.walk(d):
            for n in sorted(names):
                p = os.path.join(root, n)
                try:
                    t = open(p).read()
                except Exception:
                    continue
                for label, rx in pats:
                    for m in re.finditer(rx, t):
                        g = m.group(m.lastindex) if m.lastindex else ''
                        found.append('%s: %s (%s)' % (label, ' '.join(g.split())[:120], os.path.relpath(p, VERIF)))
    return sorted(set(found))


def spec_modules_for(prop, spec_dir):
    """spec files carry a header line `//@ props=C01,C02` or `//@ props=*`."""
    mods = []
    for n in sorted(os.listdir(spec_dir)):
        if not n.endswith('.rs'):
            continue
        text = open(os.path.join(spec_dir, n)).read()
        if 'verus!' not in text:
            continue  # re-export only module: nothing for Verus to verify (and it rejects an empty module filter)
        head = text[:2000]
        m = re.search(r'//@ props=(\S+)', head)
        if not m or m.group(1) == '*' or prop in m.group(1).split(','):
            mods.append(n[:-3])
    return mods


def write_json(path, obj):
    os.makedirs(os.path.dirname(path), exist_ok=True)
    tmp = path + '.tmp'
    with open(tmp, 'w') as f:
        json.dump(obj, f, indent=1)
    os.replace(tmp, path)


def run_witness(prop, tier, seed, hints):
    """Directed witness search on the REAL crate (replay/). Returns dict or None. A property may name several flavours of
    the witness binary (props.json `witness_flavours`, e.g. ["", "nightly"]): they are tried in order until one finds an input;
    a configuration sub-run (configs.json `witness`) fixes the flavour through VERIF_WITNESS_FLAVOUR."""
    runner = os.path.join(VERIF, 'replay', 'run_witness.py')
    if not os.path.exists(runner):
        return None
    if os.environ.get('VERIF_WITNESS_FLAVOUR') is not None:
        # a configuration may name several flavours ("stable,nightly")
        flavours = [('' if f_ == 'stable' else f_) for f_ in os.environ['VERIF_WITNESS_FLAVOUR'].split(',')]
    else:
        flavours = (load_props_cfg().get(prop) or {}).get('witness_flavours') or ['']
    last = None
    for fl in flavours:
        # "<flavour>:<ID>" = that flavour's cases of another property (e.g. "nightly:C18": the locked-container variants)
        fl, _, alt = fl.partition(':')
        env = dict(os.environ, VERIF_WITNESS_FLAVOUR=fl)
        try:
            r = subprocess.run([sys.executable, runner, alt or prop, '--tier', tier, '--seed', str(seed)], env=env,
                               stdout=subprocess.PIPE, stderr=subprocess.PIPE, text=True, timeout=1500)
        except subprocess.TimeoutExpired:
            last = {'status': 'timeout', 'flavour': fl or 'stable'}
            continue
        try:
            last = json.loads(r.stdout.strip().split('\n')[-1])
        except Exception:
            last = {'status': 'error', 'stdout': r.stdout[-2000:], 'stderr': r.stderr[-2000:]}
        last['flavour'] = fl or 'stable'
        if last.get('status') == 'found':
            return last
    return last


def main():
    t0 = time.time()
    args = sys.argv[1:]
    if not args:
        raise SystemExit(__doc__)
    prop = args[0]
    tier = os.environ.get('VERIF_TIER', 'quick')
    replay = None
    i = 1
    while i < len(args):
        if args[i] == '--tier':
            tier = args[i + 1]
            i += 2
        elif args[i] == '--replay':
            replay = args[i + 1]
            i += 2
        else:
            raise SystemExit('unknown argument ' + args[i])
    seed = int(os.environ.get('VERIF_SEED', '0') or 0)
    if replay:
        return do_replay(replay)
    cfg = load_props_cfg().get(prop)
    if cfg is None:
        raise SystemExit('property %s is not claimed (see MANIFEST.json not_applicable)' % prop)
    engine.ensure_deps()
    spec_dir = os.path.join(VERIF, 'spec')
    contracts_dir = os.path.join(VERIF, 'contracts')
    only = os.environ.get('VERIF_ONLY')
    specs = os.environ.get('VERIF_SPECS')
    BASE_VC = ['error', 'constants', 'utils', 'types']
    BASE_SPEC = ['verif_extern', 'verif_spec', 'verif_types', 'verif_prelude', 'spec_poly1305', 'spec_aead', 'spec_curve',
                 'spec_hash', 'spec_cores', 'spec_blake2b', 'proof_blake2b']
    evidence_path = os.path.join(EVID, prop + '.json')
    # stale replay files of this property
    if os.path.isdir(REPLAY_OUT):
        for n in os.listdir(REPLAY_OUT):
            if n.startswith(prop + '-'):
                os.remove(os.path.join(REPLAY_OUT, n))
    kw = dict(only=(BASE_VC + only.split(',')) if only else None,
              specs=(BASE_SPEC + specs.split(',')) if specs else None)
    # configurations (configs.json): the default run excludes sidecars owned by another configuration; VERIF_CONFIG=<name>
    # selects a non-default configuration (own + base sidecars, extra cfg flags) — used by the sub-runs below
    try:
        configs = {k: v for k, v in json.load(open(os.path.join(VERIF, 'configs.json'))).items() if not k.startswith('_')}
    except Exception:
        configs = {}
    cfgname = os.environ.get('VERIF_CONFIG', 'default')
    all_vc = sorted(n[:-3] for n in os.listdir(contracts_dir) if n.endswith('.vc'))
    owned = set(o for c in configs.values() for o in c.get('own', []))
    if cfgname == 'default':
        if kw['only'] is None and owned & set(all_vc):
            kw['only'] = [n for n in all_vc if n not in owned]
        owned_specs = set(o for c in configs.values() for o in c.get('own_specs', []))
        if kw['specs'] is None and owned_specs:
            kw['specs'] = sorted(n[:-3] for n in os.listdir(spec_dir) if n.endswith('.rs') and n[:-3] not in owned_specs)
        engine.ACTIVE_CFGS = None
    else:
        c = configs[cfgname]
        kw['only'] = [n for n in c['base'] + c['own'] if n in all_vc]
        kw['specs'] = [m for m in c['specs'] if os.path.exists(os.path.join(spec_dir, m + '.rs'))]
        engine.ACTIVE_CFGS = engine.CFGS + c.get('cfgs_extra', [])
        if c.get('rlimit'):
            cfg = dict(cfg, rlimit=max(cfg.get('rlimit', 30), c['rlimit']))
        if c.get('witness'):
            os.environ['VERIF_WITNESS_FLAVOUR'] = c['witness']   # replay/run_witness.py: flavour of the witness binary
    annotate.DEGRADE = {}
    ANNOTATE_KW.clear()
    ANNOTATE_KW.update(kw)
    rc = 2
    for attempt in range(4):
        scratch, index = engine.snapshot_and_annotate(contracts_dir, spec_dir, **kw)
        try:
            res = prerun(prop, cfg, scratch, index, spec_dir, seed)
            # units whose spliced text does not compile any more (moved anchors, changed signatures): confine them
            verdicts, glob = engine.classify(index, res, scratch)
            broken = [u for u in index['units'] if any(e['kind'] == 'other' for e in verdicts[u['uid']]['errors'])]
            if broken and attempt < 3 and not res.get('json', {}).get('verification-results', {}).get('verified'):
                for u in broken:
                    annotate.DEGRADE[u['ident']] = u.get('degraded', 0) + 1
                continue
            rc = decide(prop, tier, seed, cfg, scratch, index, spec_dir, contracts_dir, evidence_path, t0, res)
            break
        finally:
            shutil.rmtree(scratch, ignore_errors=True)
    if cfgname == 'default':
        rc = run_extra_configs(prop, tier, configs, contracts_dir, evidence_path, rc)
    sys.exit(rc)


def run_extra_configs(prop, tier, configs, contracts_dir, evidence_path, rc):
    """Units of this property that live in a non-default configuration are decided by a sub-run of this script; its
    VIOLATION / UNDECIDED lines are passed through, its summary is merged into the evidence file, and the exit code is the
    worst of the runs (violation > undecided > held)."""
    import tempfile
    extra = []
    for name, c in configs.items():
        own = [o for o in c.get('own', []) if os.path.exists(os.path.join(contracts_dir, o + '.vc'))]
        if not own or not c.get('enabled', True):
            continue  # a configuration under construction: its sidecars are kept out of the default run and not run yet
        has = False
        for o in own:
            t = open(os.path.join(contracts_dir, o + '.vc')).read()
            if re.search(r'^#@ fn .*props=[^\n]*\b%s\b' % prop, t, re.M):
                has = True
        if not has:
            continue
        tmp = tempfile.mkdtemp(prefix='dryoc_cfg.', dir=os.environ.get('VERIF_SCRATCH', '/var/tmp'))
        try:
            env = dict(os.environ, VERIF_CONFIG=name, VERIF_EVIDENCE_DIR=tmp, VERIF_NO_SELFTEST='1')
            r = subprocess.run([sys.executable, os.path.abspath(__file__), prop, '--tier', tier], env=env, cwd=VERIF,
                               stdout=subprocess.PIPE, stderr=subprocess.PIPE, text=True)
            for line in r.stdout.split('\n'):
                if line.startswith('VIOLATION'):
                    # keep the replay file: move it next to the others
                    m = re.search(r'replay=(\S+)', line)
                    if m and os.path.exists(m.group(1)):
                        dst = os.path.join(REPLAY_OUT, os.path.basename(m.group(1)))
                        os.makedirs(REPLAY_OUT, exist_ok=True)
                        shutil.copy(m.group(1), dst)
                        line = line.replace(m.group(1), dst)
                    print(line)
                elif line.startswith(('UNDECIDED', 'KNOWN-FINDING', 'OK ')):
                    print(line + ' [configuration %s]' % name)
            sys.stderr.write(r.stderr[-4000:])
            sub = {}
            try:
                sub = json.load(open(os.path.join(tmp, prop + '.json')))
            except Exception:
                pass
            extra.append({'configuration': name, 'cfg_flags': c.get('cfgs_extra'), 'exit': r.returncode,
                          'coverage': {k: sub.get('coverage', {}).get(k) for k in
                                       ('obligations', 'discharged', 'functions_under_contract', 'functions_discharged',
                                        'functions_failed', 'functions_undecided', 'functions_assumed', 'units', 'checker_cmd',
                                        'status')}})
            order = {0: 0, 2: 1, 1: 2}
            if order.get(r.returncode, 1) > order.get(rc, 1):
                rc = r.returncode if r.returncode in (0, 1, 2) else 2
        finally:
            shutil.rmtree(tmp, ignore_errors=True)
    if extra:
        try:
            ev = json.load(open(evidence_path))
            ev['coverage']['extra_configurations'] = extra
            for e in extra:
                ev['coverage']['obligations'] += e['coverage'].get('obligations') or 0
                ev['coverage']['discharged'] += e['coverage'].get('discharged') or 0
            write_json(evidence_path, ev)
        except Exception:
            pass
    return rc


# ---- dependency closure ---------------------------------------------------------------------------------------------------
# A functional property ("the result equals ...") of a function also depends on the functions it calls: the caller is verified
# against the callee's CONTRACT, so a callee whose contract fails makes the caller's proved statement void. The units a
# property speaks for are therefore its declared units (props= in the sidecars) plus the units reachable from them through
# calls. Calls are resolved syntactically and conservatively: `name(..)` to a free function unit of that name (same file, or
# unique in the crate), `Type::name(..)` to the units of that type's impls, and `.name(..)` only for the methods of the
# container traits (every impl: the object API is generic over them); other method calls are not followed.
# Frame / provenance / OS properties (C04 totality, C11, C14, C17, C19) are NOT closed this way: a callee computing a wrong value
# does not break them.
FUNCTIONAL_PROPS = ('C01', 'C02', 'C03', 'C05', 'C06', 'C07', 'C08', 'C09', 'C10', 'C12', 'C13', 'C16', 'C18')
CONTAINER_TRAITS = ('Bytes', 'MutBytes', 'ByteArray', 'MutByteArray', 'NewBytes', 'NewByteArray', 'ResizableBytes')
CONTAINER_CLOSURE_PROPS = ('C01', 'C16', 'C18')   # "with any byte container" / "every supported container type"
_CLOSURE_CACHE = {}


def _unit_meta(u):
    segs = [x.strip() for x in u['path'].split(' :: ')]
    name = re.sub(r'^fn\s+', '', segs[-1])
    name = re.sub(r'<.*$', '', name).strip()
    typ, trait = None, None
    for sg in reversed(segs[:-1]):
        if sg.startswith('impl'):
            h = sg[4:].lstrip()
            if h.startswith('<'):
                # strip the impl's generic parameter list (angle brackets nest: `impl<A: Lockable<A>> Trait for T`)
                depth = 0
                for k_, ch in enumerate(h):
                    if ch == '<':
                        depth += 1
                    elif ch == '>' and not (k_ > 0 and h[k_ - 1] == '-'):
                        depth -= 1
                        if depth == 0:
                            h = h[k_ + 1:].lstrip()
                            break
            if ' for ' in h:
                trait, h = h.split(' for ', 1)
                trait = re.sub(r'<.*$', '', trait.strip()).split('::')[-1].strip()
            m = re.match(r'[&\s]*([A-Za-z_][A-Za-z0-9_]*)', h.strip())
            typ = m.group(1) if m else None
            break
    return name, typ, trait


def prop_units(prop, index):
    key = (prop, id(index))
    if key in _CLOSURE_CACHE:
        return _CLOSURE_CACHE[key]
    declared = [u for u in index['units'] if prop in u['props']]
    if prop not in FUNCTIONAL_PROPS:
        _CLOSURE_CACHE[key] = declared
        return declared
    metas = {u['uid']: _unit_meta(u) for u in index['units']}
    by_name = {}
    for u in index['units']:
        by_name.setdefault(metas[u['uid']][0], []).append(u)
    texts = {}

    def text(u):
        if u['uid'] not in texts:
            try:
                t = engine.unit_orig_text(u)
            except Exception:
                t = ''
            t = re.sub(r'//[^\n]*', '', t)
            t = re.sub(r'/\*.*?\*/', '', t, flags=re.S)
            t = re.sub(r'"(?:[^"\\]|\\.)*"', '""', t)
            texts[u['uid']] = t
        return texts[u['uid']]

    def callees(u):
        out = []
        t = text(u)
        own = metas[u['uid']][0]
        for m in re.finditer(r'(?:(\b[A-Za-z_][A-Za-z0-9_]*)\s*(?:::<[^>()]*>)?\s*::\s*|(\.)\s*)?\b([a-z_][A-Za-z0-9_]*)\s*(?:::<[^>()]*>)?\s*\(', t):
            q, dot, name = m.group(1), m.group(2), m.group(3)
            cands = by_name.get(name)
            if not cands or (name == own and len(cands) == 1):
                continue
            if q:
                if q in ('Self', 'self', 'super', 'crate'):
                    sel = [c for c in cands if c['file'] == u['file']]
                else:
                    # (a module may re-export a file module: `blake2b::longhash` lives in blake2b::blake2b_soft / blake2b_simd)
                    sel = [c for c in cands if metas[c['uid']][1] == q or q in engine.module_of(c['file']).split('::')]
            elif dot:
                # `.name(..)`: the receiver's type is unknown here; only the container-trait methods are resolved (to every impl)
                # ... and only for the properties whose statement quantifies over the byte containers
                sel = [c for c in cands if metas[c['uid']][2] in CONTAINER_TRAITS] if prop in CONTAINER_CLOSURE_PROPS else []
            else:
                free = [c for c in cands if metas[c['uid']][1] is None]
                same = [c for c in free if c['file'] == u['file']]
                sel = same or (free if len(free) == 1 else [])
            out.extend(sel)
        return out

    seen = set(u['uid'] for u in declared)
    work = list(declared)
    extra = []
    while work:
        u = work.pop()
        for c in callees(u):
            if c['uid'] not in seen:
                seen.add(c['uid'])
                c2 = dict(c, closure=True)
                extra.append(c2)
                work.append(c2)
    res = declared + extra
    _CLOSURE_CACHE[key] = res
    return res


def modules_for(prop, index, spec_dir):
    units = prop_units(prop, index)
    bottoms = [b for b in index['bottoms'] if prop in b['props']]
    files = sorted(set(u['file'] for u in units) | set(b['file'] for b in bottoms))
    mods = [engine.module_of(f) for f in files]
    # units inside an inline `mod x { .. }` of a file live in the module <file module>::x
    for u in units:
        segs = [s_.strip() for s_ in u['path'].split(' :: ')]
        m = engine.module_of(u['file'])
        for s_ in segs:
            if re.match(r'mod \w+$', s_):
                m = m + '::' + s_.split()[1]
                if m not in mods:
                    mods.append(m)
            else:
                break
    return mods + [m for m in spec_modules_for(prop, spec_dir)
                                                   if m in index.get('spec_modules', [])]


def prerun(prop, cfg, scratch, index, spec_dir, seed):
    # the solver always starts from its default seed: an `unsat` answer is a proof under any seed, so VERIF_SEED (used for
    # the witness search and for the extra stability runs of the thorough tier) must not be able to make a proof flaky
    return engine.run_verus(scratch, modules=modules_for(prop, index, spec_dir), rlimit=cfg.get('rlimit', 30), seed=None)


_FILE_LINES = {}


def clause_props(scratch, unit, err):
    """Properties a failed obligation speaks for. A contract clause may be tagged in the sidecar by a preceding comment line
    `// props: C17` (applies to the clauses that follow, up to the next tag); an untagged clause speaks for every property
    of its unit. Verifier-generated safety obligations (overflow, bounds, unwrap, callee preconditions) speak for C04 when
    the unit belongs to C04 (totality), otherwise for every property of the unit."""
    allp = list(unit['props'])
    fullp = list(unit['props'])
    msg = err['message']
    SAFETY = ('possible arithmetic underflow/overflow', 'possible division by zero', 'possible bit shift', 'index out of bounds', 'precondition not met')
    text = (err.get('text') or '')
    is_safety = any(m in msg for m in SAFETY) or ('precondition not satisfied' in msg and 'lemma' not in text and 'proof' not in text)
    if is_safety:
        # a reachable panic: breaks totality (C04) and every "for every input the result is ..." property of the unit, but
        # not the pure frame / provenance properties
        drop = ('C11', 'C16', 'C17', 'C18')
        if os.environ.get('VERIF_CONFIG', 'default') != 'default':
            # units of another build configuration carry the same contracts as their default twins: a panic that is
            # reachable only there IS a difference between configurations (C18)
            drop = ('C11', 'C16', 'C17')
        keep = [p for p in allp if p not in drop]
        return keep or allp
    if 'postcondition' not in msg and 'invariant' not in msg:
        # a failed proof step (assert / lemma precondition inside a proof block): it speaks for the clauses it supports;
        # resolved by the caller (inherits the properties of the unit's failed postconditions, else all)
        return None
    so_ = set(unit.get('safety_only') or [])
    if so_:
        # a functional clause of a unit that speaks for some property through its safety obligations only (`C04!`)
        allp = [p for p in allp if p not in so_] or allp
    line = err.get('clause_line')
    if not line:
        return allp
    path = os.path.join(scratch, err.get('file') or unit['file'])
    if path not in _FILE_LINES:
        try:
            _FILE_LINES[path] = open(path).read().split('\n')
        except Exception:
            _FILE_LINES[path] = []
    lines = _FILE_LINES[path]
    lo = unit['range'][2] if unit.get('range') else 1
    i = min(line, len(lines)) - 1
    while i >= lo - 1 and i >= 0:
        m = re.match(r'\s*// props: (.*)$', lines[i])
        if m:
            tagged = [p for p in re.split(r'[ ,]+', m.group(1).strip()) if p]
            # an explicit clause tag may name a property the unit otherwise speaks for through safety obligations only (`C04!`):
            # e.g. the validation clause of a constructor whose accepted range keeps a callee's assertion from firing
            return [p for p in tagged if p in fullp] or allp
        if re.match(r'\s*(ensures|requires)\s*$', lines[i]):
            break
        i -= 1
    return allp


def is_proof_step(scratch, unit, err):
    """a failed ghost proof step: `assert(..)` / `assert .. by` / a lemma precondition inside spliced proof text — not a
    postcondition, precondition of an exec callee, invariant or safety condition, and not an exec `assert!` of the real code"""
    if clause_props(scratch, unit, err) is not None:
        return False
    text = (err.get('text') or '') + ' ' + (err.get('clause') or '')
    if re.search(r'\bassert(_eq|_ne)?!\s*\(', text):
        return False
    return True


def decide(prop, tier, seed, cfg, scratch, index, spec_dir, contracts_dir, evidence_path, t0, res):
    units = prop_units(prop, index)
    bottoms = [b for b in index['bottoms'] if prop in b['props'] or not b['props']]
    lost = [l for l in index['lost'] if prop in l['props'] or not l['props']]
    modules = modules_for(prop, index, spec_dir)
    rlimit = cfg.get('rlimit', 30)
    runs = [res]
    verdicts, global_errors = engine.classify(index, res, scratch)
    fb = engine.function_breakdown(res)
    known, fixed = load_known()

    proved, failed, undecided, assumed = [], [], [], []
    try:
        baseline = json.load(open(os.path.join(VERIF, 'assumed_baseline.json')))
    except Exception:
        baseline = {}
    changed_assumed = []
    files_of_prop = set(u['file'] for u in units if not u.get('closure'))
    for w in index['wraps']:
        if w.get('file') in files_of_prop:
            for sib in w.get('trait_impl_methods_assumed', []):
                if sib['ident'] in baseline and baseline[sib['ident']] != sib['sha256']:
                    changed_assumed.append(sib['ident'])
    for u in units:
        if u['assumed']:
            assumed.append(u)
            if u['ident'] in baseline and baseline[u['ident']] != u['orig_sha256']:
                # the contract of this function is an assumption accepted for its recorded text only
                changed_assumed.append(u['ident'])
            continue
        v = verdicts[u['uid']]
        if u.get('degraded', 0) > 0:
            # its anchors/spliced text no longer fit the code: never counted as discharged, never as refuted
            v['verdict'] = 'undecided'
            v['errors'].append({'kind': 'undecided', 'message': 'proof text no longer fits this function (%s)'
                                % (u.get('degrade_reason') or 'spliced text failed to compile'), 'rendered': ''})
            undecided.append(u)
        elif v['verdict'] == 'discharged':
            proved.append(u)
        elif v['verdict'] == 'failed':
            # only the obligations that speak for THIS property count against it
            cps = [(e, clause_props(scratch, u, e)) for e in v['errors'] if e['kind'] == 'failed']
            post_props = set(p for e, ps in cps if ps is not None and 'postcondition' in e['message'] for p in ps)
            mine = []
            for e, ps in cps:
                if ps is None:
                    ps = sorted(post_props) if post_props else list(u['props'])
                if prop in ps:
                    mine.append(e)
                elif u.get('closure') and not set(ps) <= set(('C04', 'C11', 'C14', 'C17', 'C19')):
                    # a dependency of this property's functions: any failed functional clause voids what was proved about them
                    mine.append(e)
            other = [e for e in v['errors'] if e['kind'] != 'failed']
            if mine:
                v['errors'] = mine + other
                failed.append(u)
            elif other:
                undecided.append(u)
            else:
                v['foreign_failures'] = [e['message'] + ': ' + (e.get('clause') or '')[:120] for e in v['errors']]
                v['errors'] = []
                v['verdict'] = 'discharged'
                proved.append(u)
        else:
            undecided.append(u)
    bottom_bad = [b for b in bottoms if verdicts[b['uid']]['verdict'] != 'discharged']
    # impl / derive inventory of the files that hold this property's units (trait impls outside any contract are trusted for
    # the recorded inventory only)
    inventory_changed = []
    try:
        inv_base = json.load(open(os.path.join(VERIF, 'inventory_baseline.json')))
    except Exception:
        inv_base = {}
    for f_ in sorted(files_of_prop):
        if f_ in inv_base:
            try:
                # the set of impls that hold units is the one recorded with the baseline (all configurations together)
                now = engine.item_inventory(os.path.join(engine.REPO, f_), inv_base[f_]['contracted'], inv_base[f_].get('unit_fns'))
            except Exception:
                continue
            added = [x for x in now if x not in inv_base[f_]['items']]
            removed = [x for x in inv_base[f_]['items'] if x not in now]
            if added or removed:
                inventory_changed.append('%s: %s' % (f_, '; '.join(['+ ' + x[:120] for x in added[:4]] + ['- ' + x[:120] for x in removed[:4]])))
    # OS-request frame (C14 / C19): a unit that now issues other kinds / numbers of OS requests than recorded is undecided
    frame_changed = []
    if prop in ('C14', 'C19'):
        try:
            eff_base = json.load(open(os.path.join(VERIF, 'effects_baseline.json')))
        except Exception:
            eff_base = {}
        for u in units:
            if u['ident'] in eff_base:
                try:
                    now = engine.os_effects(engine.unit_orig_text(u))
                except Exception:
                    continue
                ok_ = u['ident'] + ' #order'
                if prop == 'C19' and ok_ in eff_base:
                    seq = engine.wipe_order(engine.unit_orig_text(u))
                    if seq != eff_base[ok_]:
                        frame_changed.append('%s (order of wipe / lock / early-return points: %s -> %s)' % (
                            u['ident'], ' '.join(eff_base[ok_])[:160], ' '.join(seq)[:160]))
                if now != eff_base[u['ident']]:
                    diff = ['%s: %d -> %d' % (k, eff_base[u['ident']].get(k, 0), now.get(k, 0))
                            for k in sorted(set(now) | set(eff_base[u['ident']])) if now.get(k, 0) != eff_base[u['ident']].get(k, 0)]
                    frame_changed.append('%s (%s)' % (u['ident'], ', '.join(diff)))
    # Kani leaf units of this property (complete proofs of functions Verus cannot ingest)
    all_kani = engine.kani_units(prop)
    kani_results = [engine.run_kani(k) for k in all_kani if k.get('mode', 'always') == 'always']
    # on_change: complete Kani proofs of contracts Verus ASSUMES, run when the assumed function's text differs from the baseline
    for k in all_kani:
        if k.get('mode') == 'on_change' and k.get('backs') in changed_assumed:
            kani_results.append(engine.run_kani(k, playback=True))
    # tiebreak: loop-free Kani twins of the contracts of small arithmetic leaves. When Verus' proof of such a unit does not go
    # through on the current text (failed or undecided), CBMC decides the same contract for that text: a proof discharges the
    # unit (second back end, recorded); a refutation comes with a concrete counterexample that is executed natively.
    tiebreaks = []
    for k in all_kani:
        if k.get('mode') != 'tiebreak' or (k.get('tier') == 'thorough' and tier != 'thorough'):
            continue
        for u in list(failed) + list(undecided):
            if u['ident'] != k.get('backs'):
                continue
            kr = engine.run_kani(k, playback=True)
            tiebreaks.append(kr)
            v = verdicts[u['uid']]
            if kr['verdict'] == 'discharged':
                (failed if u in failed else undecided).remove(u)
                v['verus_errors_overridden'] = [e['message'] for e in v['errors']]
                v['errors'] = []
                v['verdict'] = 'discharged'
                v['proved_by'] = 'kani tie-break %s (%s)' % (k['name'], k['what'])
                proved.append(u)
            elif kr['verdict'] == 'failed':
                if u in undecided:
                    undecided.remove(u)
                    failed.append(u)
                    v['verdict'] = 'failed'
                    v['errors'] = [{'kind': 'failed', 'message': 'Kani: ' + '; '.join(kr['failed_checks'])[:200],
                                    'rendered': kr['tail'], 'clause': k['what'], 'text': ''}]
                v['kani_counterexample'] = dict(kr['counterexample'] or {}, harness=k['name'])
    kani_failed = [k for k in kani_results if k['verdict'] == 'failed']
    kani_undecided = [k for k in kani_results if k['verdict'] == 'undecided']
    for k in kani_results:
        if k['verdict'] == 'discharged' and k.get('backs') in changed_assumed:
            changed_assumed.remove(k['backs'])  # the assumed contract was re-proved by Kani on the CURRENT text
    hard_global = [g for g in global_errors]
    vres = (res.get('json') or {}).get('verification-results') or {}
    n_verified = vres.get('verified', 0)

    extra = {}
    # a unit that only ran out of solver resources is retried with two other seeds: any successful run is a valid proof
    rl = [u for u in undecided if verdicts[u['uid']]['errors'] and all(
        'rlimit' in e['message'].lower() or 'resource limit' in e['message'].lower() for e in verdicts[u['uid']]['errors'])
        and not u.get('degraded')]
    if rl and not hard_global:
        rescued = []
        for s_ in (11, 23):
            r2 = engine.run_verus(scratch, modules=modules, rlimit=rlimit, seed=s_)
            runs.append(r2)
            v2, _g2 = engine.classify(index, r2, scratch)
            for u in list(rl):
                if v2[u['uid']]['verdict'] == 'discharged':
                    rl.remove(u)
                    undecided.remove(u)
                    proved.append(u)
                    verdicts[u['uid']] = {'verdict': 'discharged', 'errors': [], 'proved_with_seed': s_}
                    rescued.append({'unit': u['path'], 'seed': s_})
            if not rl:
                break
        extra['rlimit_rescued'] = rescued
    # thorough: extra solver seeds (stability, reported only) and the vacuity pass
    if tier == 'thorough' and not hard_global and not failed:
        flips = []
        for s in (seed + 1, seed + 2):
            r2 = engine.run_verus(scratch, modules=modules, rlimit=rlimit, seed=s)
            runs.append(r2)
            v2, g2 = engine.classify(index, r2, scratch)
            for u in units:
                if not u['assumed'] and v2[u['uid']]['verdict'] != verdicts[u['uid']]['verdict']:
                    flips.append({'unit': u['path'], 'seed': s, 'verdict': v2[u['uid']]['verdict']})
        extra['solver_seeds'] = ['default', seed + 1, seed + 2]
        # instability is a maintenance signal (split the proof), not a verdict: the default-seed proof stands
        extra['unstable_units'] = flips
        if os.environ.get('VERIF_NO_SELFTEST') != '1':
            extra['selftest_seeded'] = selftest_seeded(prop)
        vac = vacuity_pass(prop, modules, rlimit, spec_dir, contracts_dir)
        extra['vacuity'] = vac
        if vac['vacuous']:
            for name in vac['vacuous']:
                for u in list(proved):
                    if u['path'] == name:
                        proved.remove(u)
                        undecided.append(u)

    # ---- report -------------------------------------------------------------------------------
    violations = []
    known_hits = []
    os.makedirs(REPLAY_OUT, exist_ok=True)
    witness = None
    if failed:
        new_fail = []
        for u in failed:
            for e in verdicts[u['uid']]['errors']:
                if e['kind'] != 'failed':
                    continue
                k = is_known(known, prop, u, e)
                if k:
                    known_hits.append((k, u, e))
                else:
                    new_fail.append((u, e))
        if new_fail:
            witness = run_witness(prop, tier, seed, new_fail)
            if not (witness and witness.get('status') == 'found'):
                # A unit whose ONLY failures are ghost proof steps (an `assert(..)` / lemma call inside spliced proof text) has
                # no refuted contract clause: the proof no longer goes through on the current text (e.g. a helper was inlined,
                # an equivalent expression used). Without a concrete failing input that is "undecided", not a violation.
                soft = []
                for u in list(failed):
                    es = [e for e in verdicts[u['uid']]['errors'] if e['kind'] == 'failed']
                    if es and all(is_proof_step(scratch, u, e) for e in es) and not verdicts[u['uid']].get('kani_counterexample'):
                        soft.append(u)
                # before giving up: the function of such a unit also stands under the contract for the other properties it is
                # tagged with; a concrete input on which it deviates from the spec, found by THEIR directed searches, refutes
                # the unit's spec-equality clause just as well (e.g. Poly1305::finalize: constructed edge accumulators live in
                # the C01/C04/C07/C08 searches, the stream properties cannot construct them)
                borrowed = None
                if soft:
                    others = []
                    for u in soft:
                        for q in u['props']:
                            if q != prop and q not in others and q in ('C01', 'C02', 'C03', 'C04', 'C05', 'C06', 'C07', 'C08', 'C09', 'C10', 'C12', 'C13'):
                                others.append(q)
                    for q in others[:6]:
                        w2 = run_witness(q, tier, seed, new_fail)
                        if w2 and w2.get('status') == 'found':
                            borrowed = dict(w2, borrowed_from_property=q,
                                            note='found by the directed search of %s, which shares the unit whose proof failed' % q)
                            break
                if borrowed:
                    witness = borrowed
                    soft = []
                for u in soft:
                    failed.remove(u)
                    undecided.append(u)
                    verdicts[u['uid']]['verdict'] = 'undecided'
                    for e in verdicts[u['uid']]['errors']:
                        if e['kind'] == 'failed':
                            e['kind'] = 'undecided'
                            e['message'] = 'proof step no longer goes through (no contract clause refuted, no failing input found): ' + e['message']
                new_fail = [(u, e) for (u, e) in new_fail if u not in soft]
            for n, (u, e) in enumerate(new_fail):
                oid = '%s::%s#%d' % (u['path'].replace(' ', ''), e['message'].split(':')[0].replace(' ', '_'), n)
                rp = os.path.join(REPLAY_OUT, '%s-%s.json' % (prop, hashlib.sha1(oid.encode()).hexdigest()[:10]))
                write_json(rp, {
                    'property': prop, 'obligation': oid, 'unit': {'file': u['file'], 'fn': u['path'],
                                                                 'orig_sha256': u['orig_sha256'],
                                                                 'orig_lines': u['orig_lines']},
                    'clause': e.get('clause'), 'code': e.get('text'), 'message': e['message'],
                    'verifier_output': e['rendered'], 'checker_cmd': res['cmd'],
                    'witness': witness,
                    'replay_cmd': './check %s --replay %s' % (prop, rp),
                })
                found = bool(witness and witness.get('status') == 'found')
                cex = verdicts[u['uid']].get('kani_counterexample')
                if cex and cex.get('native_fails'):
                    # the verifier's own counterexample, executed natively on the real function
                    d_ = json.load(open(rp))
                    d_['witness'] = {'status': 'found', 'case': 'kani:' + cex['harness'], 'input': {'values': cex['values']},
                                     'detail': 'Kani counterexample for %s, executed natively on the real code: %s'
                                               % (cex['harness'], cex.get('native_panic')),
                                     'rerun_cmd': 'python3 %s %s' % (os.path.join(VERIF, 'tools', 'kani_replay.py'), cex['harness'])}
                    d_['search_witness'] = witness
                    write_json(rp, d_)
                    found = True
                violations.append((rp, found, oid))
    if kani_failed:
        if witness is None:
            witness = run_witness(prop, tier, seed, [])
        for k in kani_failed:
            oid = 'kani::%s::%s' % (k['name'], (k['failed_checks'] or ['failed'])[0][:80])
            rp = os.path.join(REPLAY_OUT, '%s-%s.json' % (prop, hashlib.sha1(oid.encode()).hexdigest()[:10]))
            write_json(rp, {'property': prop, 'obligation': oid, 'unit': {'fn': k.get('backs')}, 'clause': k.get('what'),
                            'message': 'Kani: ' + '; '.join(k['failed_checks']), 'verifier_output': k['tail'],
                            'checker_cmd': k['cmd'], 'witness': witness, 'replay_cmd': './check %s --replay %s' % (prop, rp)})
            violations.append((rp, bool(witness and witness.get('status') == 'found'), oid))
    seen = set()
    for k, u, e in known_hits:
        key = (k.get('what'), u['path'])
        if key in seen:
            continue
        seen.add(key)
        print('KNOWN-FINDING: property=%s %s [%s :: %s]' % (prop, k.get('what', e['message']), u['file'], u['path']))

    # "held" needs positive confirmation from the verifier, never the mere absence of attributable diagnostics
    # rc 1 is acceptable only when every error diagnostic was attributed to some unit (then units without errors are
    # verified: Verus reports per function); an unattributed error makes everything undecided
    verifier_ok = (bool(vres.get('success')) and res['rc'] == 0 and vres.get('errors', 1) == 0) or (
        res['rc'] == 1 and res.get('json') is not None and not global_errors and n_verified > 0)
    only_known = bool(known_hits) and not violations and not undecided
    status = 'held'
    if violations:
        status = 'violation'
    elif hard_global or undecided or lost or bottom_bad or changed_assumed or frame_changed or inventory_changed or kani_undecided or (not proved and not known_hits):
        status = 'undecided'
    elif not verifier_ok and not only_known:
        status = 'undecided'
        hard_global.append({'kind': 'other', 'message': 'verifier did not report success (rc=%s) although no diagnostic could be '
                            'attributed to a unit' % res['rc'], 'rendered': res['raw_err'][-2000:]})
    if status == 'undecided':
        # fallback: only a refutation that replays on the real code may turn "undecided" into a violation
        if witness is None:
            witness = run_witness(prop, tier, seed, [])
        if witness and witness.get('status') == 'found':
            rp = os.path.join(REPLAY_OUT, '%s-witness.json' % prop)
            write_json(rp, {'property': prop, 'obligation': 'undecided units; concrete counterexample found by replay',
                            'witness': witness, 'replay_cmd': './check %s --replay %s' % (prop, rp)})
            violations.append((rp, True, 'witness'))
            status = 'violation'

    wall = time.time() - t0
    # evidence
    per_unit = []
    smt_us = 0
    for u in units:
        mod = engine.module_of(u['file'])
        fname = u['path'].split(' :: ')[-1]
        times = [f for n, fs in fb.items() for f in fs
                 if n.split('::')[-1] == fname and ('dryoc::' + mod) in n]
        t_us = sum(f['time-micros'] for f in times)
        smt_us += t_us
        per_unit.append({
            'file': u['file'], 'fn': u['path'], 'orig_sha256': u['orig_sha256'], 'orig_lines': u['orig_lines'],
            'verdict': 'assumed' if u['assumed'] else verdicts[u['uid']]['verdict'],
            'backend': 'Verus 0.2026.09.13 / Z3', 'smt_time_ms': t_us / 1000.0,
            'rlimit_used': sum(f.get('rlimit', 0) for f in times),
            'contract_clauses': u['clauses'], 'splices': u['splices'],
            'rewrites': [{'rule': r['rule'], 'count': r['count']} for r in u['rewrites']],
            'errors': [{'message': e['message'], 'clause': e.get('clause'), 'code': e.get('text')}
                       for e in verdicts[u['uid']]['errors']],
        })
    n_non_assumed = len([u for u in units if not u['assumed']])
    obligations = sum(1 + u['clauses'] for u in units if not u['assumed']) + len(kani_results)
    discharged = sum(1 + u['clauses'] for u in proved) + sum(1 for k in kani_results if k['verdict'] == 'discharged' and k['complete'])
    samples = []
    for u in (proved[:3] + failed[:2]):
        samples.append({'unit': '%s :: %s' % (u['file'], u['path']), 'verdict': verdicts[u['uid']]['verdict'],
                        'contract_clauses': u['clauses']})
    trusted = ['Verus 0.2026.09.13 + Z3 (soundness)', 'rustc 1.98.1 semantics == repository toolchain semantics',
               'annotate.py rewrite rules R1-R7 (DESIGN.md 3.1) preserve semantics']
    trusted += ['assumed unit contract: %s :: %s' % (u['file'], u['path']) for u in assumed]
    trusted += scan_assumptions(spec_dir, contracts_dir)
    ev = {
        'property_id': prop, 'tier': tier, 'seed': seed, 'level': 'proof',
        'coverage': {
            'obligations': obligations, 'discharged': discharged,
            'obligation_rule': 'one per function under contract (Verus-generated safety conditions: overflow, bounds, '
                               'unwrap, callee preconditions) plus one per spliced requires/ensures/invariant clause; '
                               'a unit counts as discharged only if Verus reports no error inside it',
            'functions_under_contract': n_non_assumed, 'functions_discharged': len(proved),
            'functions_failed': len(failed), 'functions_undecided': len(undecided),
            'functions_assumed': len(assumed),
            'verus_verified_items': n_verified,
            'checker_cmd': res['cmd'], 'trusted_base': trusted,
            'units': per_unit, 'samples': samples or [{'note': 'no unit'}],
            'solver_time_ms_total': smt_us / 1000.0,
            'verus_runs': [{'rc': r['rc'], 'wall_s': round(r['wall_s'], 2)} for r in runs],
            'lost_anchors': lost, 'global_errors': [g['message'] for g in hard_global][:20],
            'file_rewrites': [r for r in index['filerewrites']],
            'repo_src_sha256': index['repo_src_sha256'],
            'known_findings_matched': [k.get('what') for k, _, _ in known_hits],
            'assumed_functions_modified': changed_assumed,
            'os_request_frame_changed': frame_changed,
            'impl_inventory_changed': inventory_changed,
            'kani_units': [{kk: k.get(kk) for kk in ('name', 'verdict', 'failed_checks', 'wall_s', 'cmd', 'backs', 'complete', 'what', 'mode', 'counterexample')}
                           for k in kani_results + tiebreaks],
            'kani_standby': [{'name': k['name'], 'mode': k['mode'], 'backs': k['backs'], 'what': k['what']} for k in all_kani
                             if k.get('mode', 'always') != 'always' and k['name'] not in [t['name'] for t in kani_results + tiebreaks]],
            'status': status,
            'not_decided': cfg.get('not_decided', []),
            'witness_search': witness,
            **extra,
        },
        'assumptions': cfg.get('assumptions', []),
        'wall_s': round(wall, 2),
        'violations': len(violations),
    }
    write_json(evidence_path, ev)

    if status == 'violation':
        for rp, found, oid in violations:
            print('VIOLATION property=%s replay=%s%s' % (prop, rp, '' if found else ' no-failing-input-found'))
        for u in failed:
            for e in verdicts[u['uid']]['errors']:
                sys.stderr.write('[%s :: %s] %s\n%s\n' % (u['file'], u['path'], e['message'], e['rendered']))
        return 1
    if status == 'undecided':
        reasons = []
        for k in kani_undecided:
            reasons.append('Kani unit %s undecided (rc %s)' % (k['name'], k['rc']))
        for c_ in changed_assumed:
            reasons.append('function with an ASSUMED contract was modified: %s' % c_)
        for c_ in inventory_changed:
            reasons.append('trait impls / derives outside any contract changed (their trait-level contracts were accepted for the recorded inventory): %s' % c_)
        for c_ in frame_changed:
            reasons.append('the OS requests issued by this function differ from its recorded frame: %s' % c_)
        for l in lost:
            reasons.append('lost anchor: %s' % l['reason'])
        for g in hard_global[:5]:
            reasons.append('tool: %s' % g['message'])
        for u in undecided:
            msgs = set(e['message'][:80] for e in verdicts[u['uid']]['errors'])
            reasons.append('%s: %s' % (u['path'], '; '.join(msgs) or 'unstable/vacuous'))
        for b in bottom_bad:
            reasons.append('spliced lemma block failed in %s' % b['file'])
        if not proved:
            reasons.append('no unit verified')
        print('UNDECIDED property=%s reason=%s' % (prop, ' | '.join(reasons)[:1500]))
        for g in hard_global[:5]:
            sys.stderr.write(g['rendered'] + '\n')
        if not res['diags']:
            sys.stderr.write(res['raw_err'][-3000:])
        return 2
    print('OK property=%s units=%d/%d obligations=%d wall=%.1fs' % (prop, len(proved), n_non_assumed, obligations, wall))
    return 0


def selftest_seeded(prop):
    """Thorough tier: run the quick check against every stored seeded change of this property (applied to a scratch copy
    of /repo, never to /repo): each should be reported (exit 1) — a measure of the check's strength, not of the code."""
    import glob
    import tempfile
    res = []
    for d in sorted(glob.glob(os.path.join(VERIF, 'seeded', '*'))):
        mp = os.path.join(d, 'meta.json')
        if not os.path.isfile(mp):
            continue
        try:
            meta = json.load(open(mp))
        except Exception:
            continue
        if meta.get('property') != prop:
            continue
        tmp = tempfile.mkdtemp(prefix='dryoc_selftest.', dir=os.environ.get('VERIF_SCRATCH', '/var/tmp'))
        try:
            shutil.copytree(os.path.join(engine.REPO, 'src'), os.path.join(tmp, 'src'))
            for f in ('Cargo.toml', 'Cargo.lock'):
                shutil.copy(os.path.join(engine.REPO, f), tmp)
            r = subprocess.run(['patch', '-p1', '-s', '-d', tmp, '-i', os.path.join(d, 'patch.diff')], stdout=subprocess.PIPE,
                               stderr=subprocess.STDOUT, text=True)
            if r.returncode:
                res.append({'seeded': os.path.basename(d), 'result': 'patch does not apply to the current tree'})
                continue
            env = dict(os.environ, VERIF_REPO=tmp, VERIF_TIER='quick', VERIF_NO_SELFTEST='1',
                       VERIF_EVIDENCE_DIR=os.path.join(tmp, 'evidence'))
            c = subprocess.run([sys.executable, os.path.abspath(__file__), prop, '--tier', 'quick'], env=env, cwd=VERIF,
                               stdout=subprocess.PIPE, stderr=subprocess.PIPE, text=True)
            viol = [l for l in c.stdout.split('\n') if l.startswith('VIOLATION')]
            res.append({'seeded': os.path.basename(d), 'exit': c.returncode, 'violations': len(viol),
                        'with_failing_input': sum(1 for l in viol if 'no-failing-input-found' not in l),
                        'result': {0: ('MISSED' if not meta.get('also_check') else
                                       'not reported by this property; breaks %s first (see seeded/eval_results.json)' % ','.join(meta['also_check'])),
                                   1: 'reported', 2: 'undecided'}.get(c.returncode, 'error')})
        finally:
            shutil.rmtree(tmp, ignore_errors=True)
            # the witness build made for this scratch tree (replay/run_witness.py names it after the tree's path)
            import hashlib
            tag = hashlib.sha1(os.path.realpath(tmp).encode()).hexdigest()[:10]
            shutil.rmtree(os.path.join(VERIF, 'cache', 'replay-target-' + tag), ignore_errors=True)
            shutil.rmtree(os.path.join(VERIF, 'cache', 'replay-target-' + tag + '-nightly'), ignore_errors=True)
            shutil.rmtree(os.path.join(VERIF, 'cache', 'replay-target-' + tag + '-simd'), ignore_errors=True)
            shutil.rmtree(os.path.join(os.environ.get('VERIF_SCRATCH', '/var/tmp'), 'replay_' + tag), ignore_errors=True)
    return res


ANNOTATE_KW = {}   # sidecar / spec selection of the current configuration (set by main)


def vacuity_pass(prop, modules, rlimit, spec_dir, contracts_dir):
    """Second annotated copy with `assert(false)` at the entry of every unit: each MUST be refuted,
    otherwise the unit's precondition is contradictory."""
    annotate.VACUITY = True
    try:
        scratch, index = engine.snapshot_and_annotate(contracts_dir, spec_dir, **ANNOTATE_KW)
    finally:
        annotate.VACUITY = False
    try:
        res = engine.run_verus(scratch, modules=modules, rlimit=rlimit)
        verdicts, glob = engine.classify(index, res, scratch)
        vac, ok = [], 0
        hard = [g for g in glob if g.get('kind') == 'other']
        if hard:
            return {'probes': 0, 'refuted_as_required': 0, 'vacuous': [], 'tool_error': hard[0]['message'][:200]}
        for u in prop_units(prop, index):
            if u['assumed']:
                continue
            errs = verdicts[u['uid']]['errors']
            if any('assertion failed' in e['message'] for e in errs):
                ok += 1
            else:
                vac.append(u['path'])
        return {'probes': ok + len(vac), 'refuted_as_required': ok, 'vacuous': vac}
    finally:
        shutil.rmtree(scratch, ignore_errors=True)


def do_replay(path):
    d = json.load(open(path))
    print(json.dumps({k: d.get(k) for k in ('property', 'obligation', 'clause', 'message')}, indent=1))
    print(d.get('verifier_output', ''))
    w = d.get('witness')
    if w and w.get('status') == 'found':
        print('witness:', json.dumps(w, indent=1))
        cmd = w.get('rerun_cmd')
        if cmd:
            print('re-executing on the real code:', cmd)
            r = subprocess.run(cmd, shell=True, cwd=VERIF)
            sys.exit(1 if r.returncode != 0 else 0)
    else:
        print('no concrete failing input recorded (no-failing-input-found)')
    sys.exit(0)


if __name__ == '__main__':
    main()
