#!/bin/bash
# confirm_seeded.sh <PROP> <WORKTREE> <k...> : re-confirm independently produced seeded changes (dirs /var/tmp/seeded/<PROP>_<k> with
# patch.diff, demo.rs, meta.json) in a scratch git worktree of /repo: the suite passes with the change (also the nightly suite when the
# demo needs nightly features), the demo fails with it and passes without it. Writes <dir>/confirm.txt. Never touches /repo.
P=$1; WT=$2; shift 2; export CARGO_NET_OFFLINE=true
cd $WT || exit 1
for kk in "$@"; do
  d=/var/tmp/seeded/${P}_$kk
  k=$(basename $d); out=$d/confirm.txt; : > $out
  feats=$(python3 -c "import json;m=json.load(open('$d/meta.json'));f=m.get('demo_features','');print(','.join(f) if isinstance(f,list) else f)" 2>/dev/null)
  git checkout -q -- . ; rm -f tests/seeded_*.rs
  if ! git apply $d/patch.diff; then echo "APPLY_FAILED" >> $out; continue; fi
  cargo test --workspace --no-fail-fast --offline > $d/suite_with_change.log 2>&1; echo "suite_with_change_exit=$?" >> $out
  NF=nightly,serde; if echo "$feats" | grep -q simd_backend; then NF=nightly,serde,simd_backend; fi
  if echo "$feats" | grep -q nightly; then
     cargo +nightly test --features $NF --no-fail-fast --offline > $d/suite_nightly_with_change.log 2>&1; echo "suite_nightly_with_change_exit=$?" >> $out
     T="cargo +nightly test --features $NF --offline"
  elif [ -n "$feats" ]; then T="cargo test --features $feats --offline"; else T="cargo test --offline"; fi
  cp $d/demo.rs tests/seeded_$k.rs
  $T --test seeded_$k > $d/demo_with_change.log 2>&1; echo "demo_with_change_exit=$?" >> $out
  git checkout -q -- src
  $T --test seeded_$k > $d/demo_without_change.log 2>&1; echo "demo_without_change_exit=$?" >> $out
  echo "demo_cmd=$T --test seeded_$k" >> $out
  rm -f tests/seeded_$k.rs; git checkout -q -- .
done
echo done $P
