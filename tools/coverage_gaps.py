#!/usr/bin/env python3
"""coverage_gaps.py — functions of /repo/src that are NOT under contract (no unit in any configuration), per file.
Test modules, macro bodies and cfg(windows)-only code are not distinguished (reported as they appear)."""
import json, os, re, shutil, sys
sys.path.insert(0, os.path.dirname(os.path.abspath(__file__)))
import engine, rstok


def canon(path):
    return rstok.normalize_key(' :: '.join(re.sub(r'^fn\s+', '', seg.strip()) for seg in path.split(' :: ')))
scratch, index = engine.snapshot_and_annotate()
shutil.rmtree(scratch, ignore_errors=True)
units = {}
for u in index['units']:
    units.setdefault(u['file'], set()).add(canon(u['path']))
sibs = {}
for w in index['wraps']:
    for s in w.get('trait_impl_methods_assumed', []):
        sibs.setdefault(w.get('file'), set()).add(canon(s['ident'].split(' :: ', 1)[1]))
tot = cov = 0
for root, _, files in os.walk(os.path.join(engine.REPO, 'src')):
    for fn in sorted(files):
        if not fn.endswith('.rs'):
            continue
        path = os.path.join(root, fn)
        rel = os.path.relpath(path, engine.REPO)
        src = open(path).read()
        toks = rstok.tokenize(src)
        items = rstok.parse_items(src, toks, 0, len(toks), None)
        missing = []

        def walk(its, in_test):
            global tot, cov
            for it in its:
                if it.kind == 'mod' and it.name in ('tests', 'test'):
                    continue
                if it.kind == 'fn':
                    head = src[it.start:it.kw + 200]
                    if '#[test]' in src[it.start:it.kw] or '#[cfg(test)]' in src[it.start:it.kw]:
                        continue
                    key = canon(it.path())
                    tot += 1
                    if key in units.get(rel, ()) or key in sibs.get(rel, ()):
                        cov += 1
                    else:
                        missing.append(it.path())
                if it.children:
                    walk(it.children, in_test)
        walk(items, False)
        if missing:
            print('%s: %d not under contract' % (rel, len(missing)))
            if '-v' in sys.argv:
                for m in missing:
                    print('     ', m[:160])
print('functions: %d, under contract (proved or assumed, any configuration): %d' % (tot, cov))
