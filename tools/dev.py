#!/usr/bin/env python3
"""dev.py [modules...] — annotate + verify, print a readable summary (development aid)."""
import json, os, shutil, sys
sys.path.insert(0, os.path.dirname(os.path.abspath(__file__)))
import engine

def main():
    args = [a for a in sys.argv[1:] if not a.startswith('--')]
    keep = '--keep' in sys.argv
    rl = 20
    only = specs = None
    BASE_VC = ['error', 'constants', 'utils', 'types']
    BASE_SPEC = ['spec_cores', 'spec_blake2b', 'proof_blake2b', 'verif_extern', 'verif_spec', 'verif_types', 'verif_prelude', 'spec_poly1305', 'spec_aead', 'spec_curve', 'spec_hash']
    for a in sys.argv[1:]:
        if a.startswith('--rlimit='): rl = float(a.split('=')[1])
        if a.startswith('--only='): only = BASE_VC + a.split('=')[1].split(',')
        if a.startswith('--specs='): specs = BASE_SPEC + a.split('=')[1].split(',')
        if a.startswith('--cfg='): engine.ACTIVE_CFGS = engine.CFGS + ['feature="%s"' % f for f in a.split('=')[1].split(',')]
    if only is not None and specs is None: specs = BASE_SPEC
    if only is None and specs is None:
        # whole-crate run = the default configuration: leave out what other configurations own (configs.json)
        cf = {k: v for k, v in json.load(open(os.path.join(engine.VERIF, 'configs.json'))).items() if not k.startswith('_')}
        ov = set(o for c in cf.values() for o in c.get('own', []))
        os_ = set(o for c in cf.values() for o in c.get('own_specs', []))
        only = sorted(n[:-3] for n in os.listdir(os.path.join(engine.VERIF, 'contracts')) if n.endswith('.vc') and n[:-3] not in ov)
        specs = sorted(n[:-3] for n in os.listdir(os.path.join(engine.VERIF, 'spec')) if n.endswith('.rs') and n[:-3] not in os_)
    patches = [a.split('=')[1] for a in sys.argv[1:] if a.startswith('--patch=')]
    def patch_fn(src):
        import subprocess
        for pf in patches:
            r = subprocess.run(['patch', '-p1', '-d', os.path.dirname(src), '-i', os.path.abspath(pf)], stdout=subprocess.PIPE, stderr=subprocess.STDOUT, text=True)
            if r.returncode: raise SystemExit('patch failed: ' + r.stdout)
    engine.ensure_deps()
    scratch, index = engine.snapshot_and_annotate(only=only, specs=specs, patch_fn=patch_fn if patches else None)
    try:
        for l in index['lost']:
            print('LOST', l)
        mods = args or None
        res = engine.run_verus(scratch, modules=mods, rlimit=rl)
        verdicts, glob = engine.classify(index, res, scratch)
        j = res['json'] or {}
        print('rc', res['rc'], 'wall %.1fs' % res['wall_s'], json.dumps(j.get('verification-results')))
        for g in glob:
            print('GLOBAL', g['kind'], g['message']); print(g['rendered'])
        for u in index['units'] + index['bottoms']:
            v = verdicts[u['uid']]
            if v['verdict'] != 'discharged':
                print('UNIT', u['uid'], u.get('path', 'bottom'), u['file'], v['verdict'])
                for e in v['errors']:
                    print(e['rendered'])
        if not res['diags'] and res['rc'] != 0:
            print(res['raw_err'][-3000:])
        fb = engine.function_breakdown(res)
        slow = sorted(((f['time-micros'], n) for n, fs in fb.items() for f in fs), reverse=True)[:8]
        print('slowest:', [(n, t // 1000) for t, n in slow])
        if keep:
            print('scratch kept at', scratch)
    finally:
        if not keep:
            shutil.rmtree(scratch, ignore_errors=True)
main()
