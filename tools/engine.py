"""engine.py — snapshot /repo, annotate, run Verus on the real crate, classify per unit."""
import hashlib
import json
import os
os.environ.setdefault('RUST_MIN_STACK', '67108864')  # long straight-line units overflow rustc's default 8 MB stack
import re
import shutil
import subprocess
import tempfile
import time

import annotate

VERIF = os.path.dirname(os.path.dirname(os.path.abspath(__file__)))
REPO = os.environ.get('VERIF_REPO', '/repo')
CACHE = os.path.join(VERIF, 'cache')
VDEPS = os.path.join(CACHE, 'vdeps')
TOOLCHAIN = '1.98.1-x86_64-unknown-linux-gnu'
EXTERNS = ['base64', 'bitflags', 'chacha20', 'curve25519_dalek', 'generic_array', 'lazy_static', 'rand_core',
           'salsa20', 'serde', 'sha2', 'subtle', 'zeroize', 'libc']
# `feature="serde"` is NOT enabled in the main configuration: serde's derive on a struct wrapped in verus!{} crashes
# Verus (internal error in the erasure pass). The serde visitors of src/bytes_serde.rs are verified in a second
# configuration (CFGS_SERDE) that annotates only that file.
CFGS = ['feature="u64_backend"', 'feature="nightly"', 'feature="base64"']
CFGS_SERDE = CFGS + ['feature="serde"']
ACTIVE_CFGS = None  # set by check.py for a non-default configuration (configs.json)

REFUTATIONS = (
    'postcondition not satisfied',
    'precondition not satisfied',
    'precondition not met',   # e.g. "precondition not met: index in bounds for this access" (fixed-size array index)
    'invariant not satisfied',
    'assertion failed',
    'possible arithmetic underflow/overflow',
    'possible division by zero',
    'possible bit shift underflow/overflow',
    'decreases not satisfied',
    'loop invariant not satisfied',
    'cannot show invariant',
    'unreachable',
    'recommendation not met',
    'constructed value may fail to meet its declared type invariant',
    'failed this postcondition',
    'possible overflow',
    'index out of bounds',
    'could not prove termination',
    'cannot prove termination',
    'assertion failure',
    'assert_bitvector_by',
    'bitvector assertion not satisfied',
    'bitvector ensures not satisfied',
    'unable to prove post-condition of closure',
    'unable to prove precondition of closure',
)
UNDECIDED_MARKS = ('Resource limit (rlimit) exceeded', 'while loop: Resource limit', 'rlimit')


def lock_hash():
    h = hashlib.sha256()
    with open(os.path.join(REPO, 'Cargo.lock'), 'rb') as f:
        h.update(f.read())
    with open(os.path.join(REPO, 'Cargo.toml'), 'rb') as f:
        h.update(f.read())
    return h.hexdigest()[:16]


def ensure_deps(log=None):
    """Build the third-party dependency rlibs with Verus' toolchain (offline). The dryoc crate itself is
    never cached: every run re-snapshots /repo/src."""
    stamp = os.path.join(VDEPS, 'stamp-' + lock_hash())
    if os.path.exists(stamp):
        return
    scratch = tempfile.mkdtemp(prefix='dryoc_deps.', dir='/var/tmp')
    try:
        shutil.copy(os.path.join(REPO, 'Cargo.toml'), scratch)
        shutil.copy(os.path.join(REPO, 'Cargo.lock'), scratch)
        os.makedirs(os.path.join(scratch, 'src'))
        # dependencies only: an empty lib is enough for cargo to build every dependency
        with open(os.path.join(scratch, 'src', 'lib.rs'), 'w') as f:
            f.write('')
        env = dict(os.environ, CARGO_TARGET_DIR=VDEPS, CARGO_NET_OFFLINE='true')
        if os.path.isdir(VDEPS):
            shutil.rmtree(VDEPS)
        r = subprocess.run(['cargo', '+' + TOOLCHAIN, 'build', '--offline', '--lib', '--features', 'serde,base64'],
                           cwd=scratch, env=env, stdout=subprocess.PIPE, stderr=subprocess.STDOUT, text=True)
        if r.returncode != 0:
            raise SystemExit('dependency build failed:\n' + r.stdout[-4000:])
        open(stamp, 'w').write(time.strftime('%F %T'))
    finally:
        shutil.rmtree(scratch, ignore_errors=True)


def extern_args():
    d = os.path.join(VDEPS, 'debug', 'deps')
    args = ['-L', 'dependency=' + d]
    for c in EXTERNS:
        cands = sorted(f for f in os.listdir(d) if f.startswith('lib%s-' % c) and f.endswith('.rlib'))
        if not cands:
            raise SystemExit('missing rlib for ' + c)
        args += ['--extern', '%s=%s' % (c, os.path.join(d, cands[0]))]
    return args


def src_tree_hash(src):
    h = hashlib.sha256()
    for root, dirs, names in os.walk(src):
        dirs.sort()
        for n in sorted(names):
            p = os.path.join(root, n)
            h.update(os.path.relpath(p, src).encode())
            with open(p, 'rb') as f:
                h.update(f.read())
    return h.hexdigest()


def snapshot_and_annotate(contracts_dir=None, spec_dir=None, patch_fn=None, only=None, specs=None):
    """-> (scratch_dir, index). Caller removes scratch_dir."""
    contracts_dir = contracts_dir or os.path.join(VERIF, 'contracts')
    spec_dir = spec_dir or os.path.join(VERIF, 'spec')
    scratch = tempfile.mkdtemp(prefix='dryoc_verif.', dir=os.environ.get('VERIF_SCRATCH', '/var/tmp'))
    shutil.copytree(os.path.join(REPO, 'src'), os.path.join(scratch, 'src'))
    if patch_fn:
        patch_fn(os.path.join(scratch, 'src'))
    index = annotate.annotate_tree(os.path.join(REPO, 'src'), contracts_dir, spec_dir, os.path.join(scratch, 'src'),
                                   only=only, specs=specs)
    index['repo_src_sha256'] = src_tree_hash(os.path.join(REPO, 'src'))
    return scratch, index


def module_of(relfile):
    """src/classic/crypto_box.rs -> classic::crypto_box ; src/blake2b/mod.rs -> blake2b"""
    p = os.path.relpath(relfile, 'src')
    p = p[:-3]
    parts = p.split('/')
    if parts[-1] == 'mod':
        parts = parts[:-1]
    if parts == ['lib']:
        return ''
    return '::'.join(parts)


def run_verus(scratch, modules=None, rlimit=20, seed=None, threads=None, extra=None, timeout=3000, cfgs=None):
    cmd = ['verus', 'src/lib.rs', '--crate-type', 'lib', '--edition', '2021', '--crate-name', 'dryoc']
    cmd += extern_args()
    for c in (cfgs or ACTIVE_CFGS or CFGS):
        cmd += ['--cfg', c]
    cmd += ['--no-trait-conflicts', '--triggers-mode', 'silent', '--rlimit', str(rlimit), '--output-json', '--time',
            '--error-format=json', '--multiple-errors', '4', '--no-report-long-running']
    if threads:
        cmd += ['--num-threads', str(threads)]
    if seed is not None:
        cmd += ['--smt-option', 'smt.random_seed=%d' % seed, '--smt-option', 'sat.random_seed=%d' % seed]
    if modules is not None:
        for m in sorted(set(modules)):
            if m == '':
                cmd += ['--verify-root']
            else:
                cmd += ['--verify-only-module', m]
    if extra:
        cmd += extra
    t0 = time.time()
    try:
        r = subprocess.run(cmd, cwd=scratch, stdout=subprocess.PIPE, stderr=subprocess.PIPE, text=True, timeout=timeout)
        out, err, rc = r.stdout, r.stderr, r.returncode
    except subprocess.TimeoutExpired as e:
        out, err, rc = (e.stdout or ''), (e.stderr or '') + '\nTIMEOUT', 124
        if isinstance(out, bytes):
            out = out.decode(errors='replace')
        if isinstance(err, bytes):
            err = err.decode(errors='replace')
    wall = time.time() - t0
    res = {'cmd': ' '.join(cmd), 'rc': rc, 'wall_s': wall, 'json': None, 'diags': [], 'raw_err': err}
    try:
        res['json'] = json.loads(out)
    except Exception:
        res['raw_out'] = out[-4000:]
    for line in err.split('\n'):
        line = line.strip()
        if line.startswith('{') and '"$message_type"' in line:
            try:
                d = json.loads(line)
            except Exception:
                continue
            if d.get('$message_type') == 'diagnostic':
                res['diags'].append(d)
    return res


def classify_message(msg):
    for u in UNDECIDED_MARKS:
        if u in msg:
            return 'undecided'
    for r in REFUTATIONS:
        if r in msg:
            return 'failed'
    return 'other'


def classify(index, res, scratch):
    """-> dict uid -> {'verdict', 'errors':[...]} plus global errors."""
    by_file = {}
    for u in index['units'] + index['bottoms']:
        if u.get('range'):
            by_file.setdefault(u['file'], []).append(u)
    verdicts = {}
    for u in index['units'] + index['bottoms']:
        verdicts[u['uid']] = {'verdict': 'discharged', 'errors': []}
    global_errors = []
    for d in res['diags']:
        if d.get('level') != 'error':
            continue
        msg = d.get('message', '')
        if msg.startswith('aborting due to'):
            continue
        kind = classify_message(msg)
        prim = [s for s in d.get('spans', []) if s.get('is_primary')]
        others = [s for s in d.get('spans', []) if not s.get('is_primary')]
        placed = False
        # a diagnostic whose primary span lies in a spliced `bottom` block (e.g. the trait-level `ensures` that a trait-impl
        # method failed) belongs to the FUNCTION named by one of its other spans ("at the end of the function body"): spans
        # that fall into a unit are preferred over spans that fall into a bottom block
        def _hits(want_unit):
            for s_ in prim + others:
                fn_ = s_['file_name']
                rel_ = fn_ if fn_.startswith('src/') else os.path.join('src', fn_)
                for u_ in by_file.get(rel_, []):
                    if str(u_['uid']).startswith('B') == want_unit:
                        continue
                    if u_['range'][0] <= s_['byte_start'] <= u_['range'][1]:
                        return [(s_, u_, rel_)]
            return []
        for s, u, rel in (_hits(True) or _hits(False)):
            for _once in (0,):
                if True:
                    text = ''
                    if s.get('text'):
                        text = ' '.join(t['text'].strip() for t in s['text'])[:300]
                    labels = [o.get('label') for o in d.get('spans', []) if o.get('label')]
                    clause = None
                    for o in d.get('spans', []):
                        if o.get('label') and o.get('text'):
                            clause = ' '.join(t['text'].strip() for t in o['text'])[:300]
                    clause_line = None
                    for o in d.get('spans', []):
                        if o.get('label') and 'failed' in (o.get('label') or '') and o['file_name'] == s['file_name']:
                            clause_line = o['line_start']
                    verdicts[u['uid']]['errors'].append({
                        'kind': kind, 'message': msg, 'line_annotated': s['line_start'], 'text': text,
                        'clause_line': clause_line, 'file': rel,
                        'labels': labels, 'clause': clause, 'rendered': d.get('rendered', '')[:3000]})
                    placed = True
                    break
            if placed:
                break
        if not placed:
            global_errors.append({'kind': kind, 'message': msg, 'rendered': d.get('rendered', '')[:3000]})
    for uid, v in verdicts.items():
        kinds = set(e['kind'] for e in v['errors'])
        if 'failed' in kinds:
            v['verdict'] = 'failed'
        elif kinds:
            v['verdict'] = 'undecided'
    return verdicts, global_errors


def function_breakdown(res):
    out = {}
    j = res.get('json') or {}
    smt = (j.get('times-ms') or {}).get('smt') or {}
    for m in smt.get('smt-run-module-times', []):
        for f in m.get('function-breakdown', []):
            out.setdefault(f['function'], []).append(f)
    return out


# ---------------------------------------------------------------------------------------------
# Kani leaf units (kani/units.json): a harness appended to a scratch copy of the real crate. Used only for functions that
# Verus cannot ingest (unsafe code) and only with harnesses that are COMPLETE (full-domain symbolic inputs, constant loop
# bounds with unwinding assertions on); anything bounded would be labelled as such and never counted as discharged.
KANI_TARGET = os.path.join(CACHE, 'kani-target')


def kani_units(prop=None):
    p = os.path.join(VERIF, 'kani', 'units.json')
    if not os.path.exists(p):
        return []
    us = json.load(open(p))
    return [u for u in us if prop is None or prop in u['props']]


def run_kani(unit, timeout=900, playback=False):
    """Append the unit's harness file to the REAL source file (scratch copy of the current tree) and run the harness.
    playback=True: ask Kani for a concrete counterexample (`--concrete-playback=inplace`) and, if it gives one, execute it
    natively on the real code (`cargo kani playback`): `counterexample` = {values, native_fails, test}."""
    scratch = tempfile.mkdtemp(prefix='dryoc_kani.', dir=os.environ.get('VERIF_SCRATCH', '/var/tmp'))
    t0 = time.time()
    try:
        shutil.copytree(os.path.join(REPO, 'src'), os.path.join(scratch, 'src'))
        for f in ('Cargo.toml', 'Cargo.lock'):
            shutil.copy(os.path.join(REPO, f), scratch)
        with open(os.path.join(VERIF, unit['harness_file'])) as f:
            harness = f.read()
        target = os.path.join(scratch, unit['append_to'])
        with open(target, 'a') as f:
            f.write(harness)
        env = dict(os.environ, CARGO_NET_OFFLINE='true', CARGO_TARGET_DIR=KANI_TARGET)
        cmd = ['cargo', 'kani'] + unit.get('flags', []) + ['--harness', unit['name']]
        if playback:
            cmd += ['-Z', 'concrete-playback', '--concrete-playback=inplace']
        timeout = unit.get('timeout', timeout)
        # concurrent checks share the Kani target directory: Kani's per-harness artifacts there are not safe against two
        # runs of the same harness from different scratch trees, so Kani runs are serialised across processes
        import fcntl
        os.makedirs(KANI_TARGET, exist_ok=True)
        lockf = open(os.path.join(KANI_TARGET, '.verif_kani.lock'), 'w')
        fcntl.flock(lockf, fcntl.LOCK_EX)
        try:
            r = subprocess.run(cmd, cwd=scratch, env=env, stdout=subprocess.PIPE, stderr=subprocess.STDOUT, text=True,
                               timeout=timeout)
            out, rc = r.stdout, r.returncode
        except subprocess.TimeoutExpired as e:
            out, rc = (e.stdout or b'').decode(errors='replace') if isinstance(e.stdout, bytes) else (e.stdout or ''), 124
        finally:
            if not playback:
                fcntl.flock(lockf, fcntl.LOCK_UN)
                lockf.close()
        verdict = 'undecided'
        failed = re.findall(r'Failed Checks: (.*)', out)
        if 'VERIFICATION:- SUCCESSFUL' in out and '1 successfully verified harnesses, 0 failures' in out:
            verdict = 'discharged'
        elif 'VERIFICATION:- FAILED' in out and failed and not any('unwinding assertion' in f or 'not currently supported' in f
                                                                 for f in failed):
            verdict = 'failed'
        cex = None
        if playback and verdict == 'failed':
            src = open(target).read()
            m = re.search(r'fn (kani_concrete_playback_\w+)\(\) \{\s*let concrete_vals: Vec<Vec<u8>> = vec!\[(.*?)\];', src, re.S)
            if m:
                vals = [l.strip()[2:].strip() for l in m.group(2).split('\n') if l.strip().startswith('//')]
                cex = {'test': m.group(1), 'values': vals, 'raw': ' '.join(m.group(2).split())[:2000]}
                pcmd = ['cargo', 'kani', 'playback', '-Z', 'concrete-playback', '--', m.group(1)]
                try:
                    pr = subprocess.run(pcmd, cwd=scratch, env=env, stdout=subprocess.PIPE, stderr=subprocess.STDOUT, text=True,
                                        timeout=900)
                    cex['native_fails'] = ('test result: FAILED' in pr.stdout)
                    mm = re.search(r"panicked at [^\n]*\n([^\n]*)", pr.stdout)
                    cex['native_panic'] = mm.group(0)[:300] if mm else None
                    cex['native_cmd'] = ' '.join(pcmd)
                except subprocess.TimeoutExpired:
                    cex['native_fails'] = None
        if playback:
            try:
                fcntl.flock(lockf, fcntl.LOCK_UN)
                lockf.close()
            except Exception:
                pass
        return {'name': unit['name'], 'verdict': verdict, 'failed_checks': failed[:10], 'rc': rc, 'wall_s': time.time() - t0,
                'cmd': ' '.join(cmd), 'tail': out[-3000:], 'backs': unit.get('backs'), 'complete': unit.get('complete', False),
                'what': unit.get('what'), 'mode': unit.get('mode', 'always'), 'counterexample': cex}
    finally:
        shutil.rmtree(scratch, ignore_errors=True)


# ---- OS-request frame (C14 / C19) ---------------------------------------------------------------------------------------
# The kernel model of spec_protected.rs is monotone (facts "request X was issued / granted"): a contract cannot say that a
# function issues NO OTHER request. The frame condition "this function issues exactly these kinds of OS requests" is therefore
# checked mechanically on the function text: the multiset of calls to the request wrappers / libc functions below is recorded
# in effects_baseline.json (tools/gen_baseline.py) and compared on every run; a difference makes the unit UNDECIDED (then the
# OS-inspecting witness search decides), never a violation by itself.
OS_EFFECT_NAMES = ['dryoc_mlock', 'dryoc_munlock', 'dryoc_mprotect_readonly', 'dryoc_mprotect_readwrite', 'dryoc_mprotect_noaccess',
                   'mlock', 'munlock', 'mprotect', 'mprotect_readonly', 'mprotect_readwrite', 'mprotect_noaccess', 'posix_memalign',
                   'free', 'c_mlock', 'c_munlock', 'c_mprotect', 'madvise', 'VirtualLock', 'VirtualUnlock', 'VirtualProtect', 'VirtualAlloc', 'VirtualFree']


def os_effects(text):
    """{name: count} of calls to OS-request functions in a function's text (comments and strings removed)."""
    t = re.sub(r'//[^\n]*', '', text)
    t = re.sub(r'/\*.*?\*/', '', t, flags=re.S)
    t = re.sub(r'"(?:[^"\\]|\\.)*"', '""', t)
    out = {}
    for m in re.finditer(r'(?<![A-Za-z0-9_])([A-Za-z_][A-Za-z0-9_]*)\s*(?:::<[^>]*>)?\s*\(', t):
        n = m.group(1)
        if n in OS_EFFECT_NAMES:
            # skip the function's own header `fn name(`
            pre = t[max(0, m.start() - 4):m.start()]
            if pre.rstrip().endswith('fn'):
                continue
            out[n] = out.get(n, 0) + 1
    return out


WIPE_ORDER_NAMES = ('zeroize', 'new_locked', 'new_readonly_locked', 'gen_locked', 'gen_readonly_locked', 'from_slice_into_locked',
                    'from_slice_into_readonly_locked', 'mlock', 'munlock', 'mprotect_readonly', 'mprotect_readwrite',
                    'mprotect_noaccess', 'copy_from_slice', 'resize')


def wipe_order(text):
    """Order frame of the functions that must wipe on every path (C19): the SEQUENCE of wipe / lock / protect / copy calls and
    of `?` early-return points in the function text. A reordering that moves an early return in front of a wipe (the secret
    then survives on the error path) changes this sequence; no postcondition can see a stack temporary after the return."""
    t = re.sub(r'//[^\n]*', '', text)
    t = re.sub(r'/\*.*?\*/', '', t, flags=re.S)
    t = re.sub(r'"(?:[^"\\]|\\.)*"', '""', t)
    seq = []
    for m in re.finditer(r'\?|(?<![A-Za-z0-9_])([A-Za-z_][A-Za-z0-9_]*)\s*(?:::<[^>]*>)?\s*\(', t):
        if m.group(0) == '?':
            seq.append('?')
        elif m.group(1) not in ('if', 'while', 'match', 'for', 'fn', 'Ok', 'Err', 'Some', 'Self'):
            # every call: the position of the calls that CREATE the secret relative to the early returns matters as much as
            # the position of the wipes
            seq.append(m.group(1))
    return seq


def unit_orig_text(u, repo=None):
    a, z = u['orig_lines']
    with open(os.path.join(repo or REPO, u['file'])) as f:
        lines = f.read().split('\n')
    return '\n'.join(lines[a - 1:z])


# ---- inventory of impls and derives --------------------------------------------------------------------------------------
# Trait impls that are not under contract (derive-generated or hand-written `impl Zeroize / Clone / Default / From ...`) are
# trusted to satisfy the trait-level contract. That trust is given to the impls that existed when the contracts were written:
# the list of `impl` headers and of `#[derive(..)]` attributes per type in each source file is recorded in
# inventory_baseline.json; a new, removed or re-derived impl in a file that holds units of the property makes the check
# UNDECIDED (then the witness search decides), never a violation by itself.
def item_inventory(path, contracted=(), unit_fns=None):
    """contracted: normalised `impl ...` keys (rstok.normalize_key) of impls that hold at least one unit under contract: their
    text is verified, so only their header is recorded; every OTHER trait impl is recorded with a hash of its text
    (comments removed), because its behaviour is trusted at the trait level for exactly that text."""
    import rstok, hashlib
    src = open(path).read()
    toks = rstok.tokenize(src)
    items = rstok.parse_items(src, toks, 0, len(toks), None)
    out = []
    contracted = set(contracted)

    def strip(t):
        t = re.sub(r'//[^\n]*', '', t)
        t = re.sub(r'/\*.*?\*/', '', t, flags=re.S)
        return ' '.join(t.split())

    def walk(its, prefix):
        for it in its:
            if it.kind == 'impl':
                head = ' '.join((it.header or '').split())
                entry = prefix + 'impl ' + head
                if ' for ' in head and rstok.normalize_key(prefix + 'impl ' + (it.header or '')) not in contracted \
                        and rstok.normalize_key('impl ' + (it.header or '')) not in contracted:
                    entry += ' #' + hashlib.sha256(strip(src[it.kw:it.end]).encode()).hexdigest()[:10]
                out.append(entry)
                # the methods the impl defines: a NEW method (e.g. an extra `visit_borrowed_bytes` of a serde visitor, a new
                # `update_from_reader` next to `update`) is code no contract has seen
                for ch in it.children:
                    if ch.kind == 'fn':
                        out.append(prefix + 'impl ' + head + ' :: fn ' + str(ch.name))
                        if ch.children:
                            walk(ch.children, prefix + 'impl ' + head + ' :: fn ' + str(ch.name) + ' :: ')
            elif it.kind == 'fn':
                out.append(prefix + 'fn ' + str(it.name))
                # items nested in a function body (serde visitors live there)
                if it.children:
                    walk(it.children, prefix + 'fn %s :: ' % it.name)
            elif it.kind in ('struct', 'enum'):
                head = src[it.start:it.kw]
                ders = sorted(set(d.strip() for m in re.finditer(r'derive\(([^)]*)\)', head) for d in m.group(1).split(',') if d.strip()))
                # the definition itself (fields, field attributes such as #[serde(..)], repr): derive-generated code depends on it
                out.append(prefix + '%s %s derive(%s) #%s' % (it.kind, it.name, ', '.join(ders),
                                                            hashlib.sha256(strip(src[it.start:it.end]).encode()).hexdigest()[:10]))
            elif it.kind == 'type':
                # a type alias picks lengths / containers for the generic code (e.g. `type Hash = HeapByteArray<32>`)
                out.append(prefix + 'type ' + strip(src[it.kw:it.end]))
            elif it.kind == 'macro':
                # item-level macro invocations generate impls that no contract sees (e.g. impl_index_heapbytes!(..))
                out.append(prefix + 'macro ' + hashlib.sha256(strip(src[it.kw:it.end]).encode()).hexdigest()[:10] + ' ' + strip(src[it.kw:it.end])[:60])
            elif it.kind == 'mod' and it.children and it.name not in ('tests', 'test'):
                walk(it.children, prefix + 'mod %s :: ' % it.name)
    walk(items, '')
    # functions with a body that are NOT under contract in any configuration (serde `serialize`/`deserialize` dispatchers, a
    # few helpers): nothing is proved about them, so they are accepted for the recorded text only (`unit_fns` = canonical paths
    # of the functions under contract, recorded with the baseline)
    if unit_fns is not None:
        ufs = set(unit_fns)

        def fwalk(its):
            for it in its:
                if it.kind == 'mod' and it.name in ('tests', 'test'):
                    continue
                if it.kind == 'fn' and '#[test]' not in src[it.start:it.kw]:
                    body = src[it.kw:it.end]
                    if fn_canon(it.path()) not in ufs and '{' in body:
                        own = body
                        # the text of nested items under contract is verified: hash only what is outside them
                        for ch in (it.children or []):
                            own = own.replace(src[ch.start:ch.end], '')
                        out.append('uncontracted fn ' + ' '.join(it.path().split())[:200] + ' #' + hashlib.sha256(strip(own).encode()).hexdigest()[:10])
                if it.children:
                    fwalk(it.children)
        fwalk(items)
    return sorted(out)


def fn_canon(path):
    import rstok
    return rstok.normalize_key(' :: '.join(re.sub(r'^fn\s+', '', seg.strip()) for seg in path.split(' :: ')))


def unit_fn_keys(index, relfile):
    """canonical paths of the functions of `relfile` that are under contract (proved or assumed, any configuration)"""
    keys = set(fn_canon(u['path']) for u in index['units'] if u['file'] == relfile)
    for w in index.get('wraps', []):
        if w.get('file') == relfile:
            for s_ in w.get('trait_impl_methods_assumed', []):
                keys.add(fn_canon(s_['ident'].split(' :: ', 1)[1]))
    return keys


def contracted_impl_keys(index, relfile):
    """normalised impl keys (with and without enclosing `mod x ::`) of the impls of `relfile` that hold a unit"""
    import rstok
    keys = set()
    for u in index['units']:
        if u['file'] != relfile or ' :: ' not in u['path']:
            continue
        segs = u['path'].split(' :: ')
        for n in range(1, len(segs)):
            if segs[n - 1].strip().startswith('impl'):
                keys.add(rstok.normalize_key(' :: '.join(segs[:n])))
                keys.add(rstok.normalize_key(segs[n - 1]))
    for w in index.get('wraps', []):
        pass
    return keys
