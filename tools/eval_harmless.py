#!/usr/bin/env python3
"""eval_harmless.py <dir>... : false-alarm probe. Each dir holds patch.diff (+meta.json) of a SEMANTICS-PRESERVING change.
Applies it to a scratch worktree of /repo, runs the quick check of every property that has a unit in a touched file
(all claimed properties with --all), and prints rc / VIOLATION lines. Expected: rc 0 (or 2 = undecided), never a VIOLATION."""
import json, os, re, subprocess, sys
V = os.path.dirname(os.path.dirname(os.path.abspath(__file__)))
sys.path.insert(0, os.path.join(V, 'tools'))
WT = os.environ.get('EVAL_WT', '/var/tmp/wt/evalh')
allp = '--all' in sys.argv
dirs = [a for a in sys.argv[1:] if not a.startswith('--')]
if not os.path.isdir(WT):
    subprocess.run(['git', '-C', '/repo', 'worktree', 'add', '-q', '--detach', WT, 'HEAD'], check=True)
    subprocess.run(['cp', '/repo/Cargo.lock', WT])
claimed = [c['property_id'] for c in json.load(open(os.path.join(V, 'MANIFEST.json')))['checks']]
# file -> properties (from the last evidence files)
f2p = {}
for p in claimed:
    try:
        ev = json.load(open(os.path.join(V, 'evidence', p + '.json')))
    except Exception:
        continue
    for m in re.findall(r'src/[\w/]+\.rs', json.dumps(ev)):
        f2p.setdefault(m, set()).add(p)
res = []
for d in dirs:
    subprocess.run(['git', '-C', WT, 'checkout', '-q', '--', '.'], check=True)
    patch = open(os.path.join(d, 'patch.diff')).read()
    r = subprocess.run(['git', '-C', WT, 'apply', os.path.join(d, 'patch.diff')], capture_output=True, text=True)
    if r.returncode:
        print(os.path.basename(d), 'APPLY-FAILED', r.stderr[:100]); continue
    files = set(re.findall(r'^\+\+\+ b/(\S+)', patch, re.M))
    props = sorted(claimed if allp else set().union(*[f2p.get(f, set()) for f in files]))
    out = []
    for p in props:
        env = dict(os.environ, VERIF_REPO=WT, VERIF_EVIDENCE_DIR=os.path.join(os.environ.get('VERIF_SCRATCH', '/var/tmp'), 'evidence_eval'))
        c = subprocess.run([os.path.join(V, 'check'), p], cwd=V, env=env, capture_output=True, text=True)
        viol = [l for l in c.stdout.split('\n') if l.startswith('VIOLATION')]
        und = [l for l in c.stdout.split('\n') if l.startswith('UNDECIDED')]
        out.append('%s:rc=%d%s' % (p, c.returncode, ('(VIOL %d)' % len(viol)) if viol else ''))
        res.append({'change': os.path.basename(d), 'property': p, 'rc': c.returncode, 'violations': viol, 'undecided': und[:3], 'tail': c.stdout[-1200:] if c.returncode else ''})
    print(os.path.basename(d), ','.join(sorted(files)), ' '.join(out), flush=True)
    subprocess.run(['git', '-C', WT, 'checkout', '-q', '--', '.'], check=True)
json.dump(res, open(os.environ.get('EVAL_RESULTS', '/var/tmp/harmless_results.json'), 'w'), indent=1)
