#!/usr/bin/env python3
"""eval_seeded.py [dir...] — apply each seeded change (seeded/<id>/patch.diff) to a scratch worktree of /repo, run the
quick check of the property it breaks against that tree (VERIF_REPO), undo it. Prints one line per change.
Never touches /repo."""
import json, os, subprocess, sys, glob
V = os.path.dirname(os.path.dirname(os.path.abspath(__file__)))
WT = os.environ.get('EVAL_WT', '/var/tmp/wt/eval')
dirs = sys.argv[1:] or sorted(d for d in glob.glob(os.path.join(V, 'seeded', '*')) if os.path.isdir(d))
if not os.path.isdir(WT):
    subprocess.run(['git', '-C', '/repo', 'worktree', 'add', '-q', '--detach', WT, 'HEAD'], check=True)
import shutil; shutil.copy('/repo/Cargo.lock', os.path.join(WT, 'Cargo.lock')) if not os.path.exists(os.path.join(WT, 'Cargo.lock')) else None
subprocess.run(['git', '-C', WT, 'checkout', '-q', '--detach', subprocess.run(['git', '-C', '/repo', 'rev-parse', 'HEAD'], capture_output=True, text=True).stdout.strip()], check=True)
results = []
for d in dirs:
    meta = json.load(open(os.path.join(d, 'meta.json')))
    prop = meta['property']
    subprocess.run(['git', '-C', WT, 'checkout', '-q', '--', '.'], check=True)
    r = subprocess.run(['git', '-C', WT, 'apply', os.path.join(d, 'patch.diff')], capture_output=True, text=True)
    if r.returncode:
        print('%-10s %s APPLY-FAILED %s' % (os.path.basename(d), prop, r.stderr.strip()[:100])); continue
    env = dict(os.environ, VERIF_REPO=WT, VERIF_EVIDENCE_DIR=os.path.join(os.environ.get('VERIF_SCRATCH', '/var/tmp'), 'evidence_eval'))
    also = meta.get('also_check', [])
    line = []
    for p in [prop] + also:
        c = subprocess.run([os.path.join(V, 'check'), p], cwd=V, env=env, capture_output=True, text=True)
        viol = [l for l in c.stdout.split('\n') if l.startswith('VIOLATION')]
        und = [l for l in c.stdout.split('\n') if l.startswith('UNDECIDED')]
        wit = sum(1 for l in viol if 'no-failing-input-found' not in l)
        line.append('%s rc=%d viol=%d(with-input=%d)%s' % (p, c.returncode, len(viol), wit, (' ' + und[0][:160]) if und else ''))
        results.append({'seeded': os.path.basename(d), 'property': p, 'rc': c.returncode, 'violations': len(viol), 'with_input': wit,
                        'stdout': c.stdout[-1500:]})
    print('%-10s %s' % (os.path.basename(d), ' | '.join(line)), flush=True)
    subprocess.run(['git', '-C', WT, 'checkout', '-q', '--', '.'], check=True)
rp = os.environ.get('EVAL_RESULTS') or os.path.join(V, 'seeded', 'eval_results.json')
try:
    prev = json.load(open(rp))
except Exception:
    prev = []
done = set(r['seeded'] for r in results)
results = sorted([r for r in prev if r['seeded'] not in done] + results, key=lambda r: (r['seeded'], r['property']))
json.dump(results, open(rp, 'w'), indent=1)
