#!/usr/bin/env python3
"""gen_baseline.py — record the text hash of every function whose contract is ASSUMED (explicit `assumed` units and the
trait-impl sibling methods that Verus forces to external_body). A check treats a changed assumed function as undecided:
its contract was accepted for the text recorded here, not for whatever the function has become."""
import json, os, shutil, sys
sys.path.insert(0, os.path.dirname(os.path.abspath(__file__)))
import engine
scratch, index = engine.snapshot_and_annotate()
shutil.rmtree(scratch, ignore_errors=True)
base = {}
for u in index['units']:
    if u['assumed']:
        base[u['ident']] = u['orig_sha256']
for w in index['wraps']:
    for sib in w.get('trait_impl_methods_assumed', []):
        base[sib['ident']] = sib['sha256']
json.dump(base, open(os.path.join(engine.VERIF, 'assumed_baseline.json'), 'w'), indent=1, sort_keys=True)
print('assumed functions recorded:', len(base), 'lost:', len(index['lost']))

# OS-request frame of every unit of the protected-memory properties (see engine.os_effects)
eff = {}
for u in index['units']:
    if set(u['props']) & {'C14', 'C19'}:
        eff[u['ident']] = engine.os_effects(engine.unit_orig_text(u))
        if 'C19' in u['props']:
            eff[u['ident'] + ' #order'] = engine.wipe_order(engine.unit_orig_text(u))
json.dump(eff, open(os.path.join(engine.VERIF, 'effects_baseline.json'), 'w'), indent=1, sort_keys=True)
print('OS-request frames recorded:', len(eff))

# impl / derive inventory of every source file that holds a unit (see engine.item_inventory)
inv = {}
for f in sorted(set(u['file'] for u in index['units'])):
    ck = sorted(engine.contracted_impl_keys(index, f))
    uf = sorted(engine.unit_fn_keys(index, f))
    inv[f] = {'contracted': ck, 'unit_fns': uf, 'items': engine.item_inventory(os.path.join(engine.REPO, f), ck, uf)}
json.dump(inv, open(os.path.join(engine.VERIF, 'inventory_baseline.json'), 'w'), indent=1, sort_keys=True)
print('impl/derive inventories recorded:', len(inv), 'files,', sum(len(v['items']) for v in inv.values()), 'entries')
