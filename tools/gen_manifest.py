#!/usr/bin/env python3
"""Regenerates MANIFEST.json from props.json + not_applicable.json (keeps the manifest valid at all times)."""
import json, os
V = os.path.dirname(os.path.dirname(os.path.abspath(__file__)))
props = json.load(open(os.path.join(V, 'props.json')))
na = json.load(open(os.path.join(V, 'not_applicable.json')))
checks = []
for pid in sorted(props):
    c = props[pid]
    if not c.get('enabled', True):
        continue
    checks.append({
        'property_id': pid,
        'quick_cmd': './check %s --tier quick' % pid,
        'thorough_cmd': './check %s --tier thorough' % pid,
        'evidence_file': '/verif/evidence/%s.json' % pid,
        'replay_cmd_template': './check %s --replay {path}' % pid,
        'engine': 'verus-inplace',
        'level_claimed': {'category': 'proof', 'text': c['level_text'], 'design_ref': c.get('design_ref', 'DESIGN.md §4 ' + pid)},
        'level_note': c['level_note'],
        'technique': c.get('technique', 'contract-based deductive verification (Verus) of the real functions, contracts spliced mechanically'),
    })
claimed = set(k for k in props if props[k].get('enabled', True))
for k in sorted(props):
    if k not in claimed:
        na = [x for x in na if x['property_id'] != k] + [{'property_id': k, 'reason': 'check built but not yet enabled in this commit (integration in progress; see DESIGN.md)'}]
m = {
    'version': 1,
    'setup_cmd': './setup.sh',
    'hooks': {'guard': 'dryoc_verif', 'enable': 'none needed: contracts are spliced into a scratch copy of /repo/src on every run (tools/annotate.py); no source hooks exist', 'baseline_off_cmd': 'cd /repo && cargo test --workspace --no-fail-fast --offline', 'source_commits': [], 'add_only': True},
    'engines': [{'name': 'verus-inplace', 'path': 'tools/check.py', 'serves_properties': sorted(claimed), 'kind_free_text': 'Verus 0.2026.09.13 run as rustc driver on a scratch copy of the real crate with sidecar contracts (contracts/*.vc, spec/*.rs) spliced by tools/annotate.py; replay/ = directed witness search on the real crate after a failed obligation'}],
    'checks': checks,
    'not_applicable': [x for x in na if x['property_id'] not in claimed],
    'notes': 'exit 0 held / exit 1 VIOLATION / exit 2 undecided (tool limit, lost anchor; never an alarm). See DESIGN.md.',
}
json.dump(m, open(os.path.join(V, 'MANIFEST.json'), 'w'), indent=1)
print('MANIFEST.json: %d checks, %d not applicable' % (len(checks), len(m['not_applicable'])))
