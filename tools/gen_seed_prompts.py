#!/usr/bin/env python3
"""gen_seed_prompts.py <round> <PROP>=<worktree-name>... : write /var/tmp/seeded/<PROP>.prompt<round>.txt, the self-contained task text
handed to a fresh sub-agent (property text + its scratch worktree /var/tmp/wt/<name>; nothing from /verif except one-line summaries
of the changes earlier rounds produced, so that the new ones differ)."""
import json, glob, os, sys
rnd = sys.argv[1]
props = {}
for l in open('/verif/properties.jsonl'):
    p = json.loads(l); props[p['id']] = p
os.makedirs('/var/tmp/seeded', exist_ok=True)
for a in sys.argv[2:]:
    pid, wt = a.split('=')
    p = props[pid]
    ptxt = "%s — %s\n\n%s\n\nQuantifier: %s\n\nWhy the existing tests cannot settle it: %s\n\nAnchoring files: %s\n" % (
        pid, p['title'], p['statement'], p['quantifier']['text'], p['why_tests_cant'], ', '.join(p['anchors'].get('files', [])))
    prev = []
    for d in sorted(glob.glob('/verif/seeded/%s_*' % pid)):
        m = json.load(open(d + '/meta.json'))
        prev.append(' - %s (files: %s)' % (' '.join(m['summary'].split())[:180], ', '.join(m.get('files', []))))
    ks = [int(os.path.basename(d).split('_')[1]) for d in glob.glob('/verif/seeded/%s_*' % pid)]
    k1 = max(ks + [0]) + 1; k2 = k1 + 1
    W = '/var/tmp/wt/' + wt
    txt = f"""You are given a git worktree of the Rust crate `dryoc` (a pure-Rust reimplementation of libsodium primitives) at {W} . Work ONLY inside that directory (and write your deliverables to /var/tmp/seeded/). Do not look at or touch anything else on the machine — in particular never read or write /verif or /repo. The sandbox has no network: use `cargo ... --offline` (set CARGO_NET_OFFLINE=true); a prebuilt `target/` directory is already in the worktree so builds are incremental. The test suite is run with `cd {W} && CARGO_NET_OFFLINE=true cargo test --workspace --no-fail-fast --offline` (105 unit tests + doctests, all pass on the unmodified tree; the dev-dependencies libsodium-sys / sodiumoxide are available for oracles in tests).

Here is a semantic property that the crate is supposed to satisfy:

----------------------------------------------------------------
{ptxt}
----------------------------------------------------------------

YOUR TASK: produce 2 DIFFERENT realistic changes ("seeded defects") to the crate's source (files under src/, not tests) such that, for each change separately:
  1. the crate still compiles and the ENTIRE existing test suite still passes (run it and confirm — all unit tests and doctests);
  2. the change BREAKS the property above;
  3. the breakage needs something specific to manifest — an unusual input (a particular length, residue, counter value, byte pattern, key class, carry pattern), a multi-step sequence of operations, a particular state, a fault at a particular point, an unusual container type or API variant, or two cooperating edits that each look fine alone — NOT something ordinary use or the existing tests would expose at once;
  4. it looks like a plausible programming mistake or "optimisation" a maintainer could make, not an obviously malicious backdoor. Prefer small diffs (1–10 changed lines). The two changes should differ in kind and location.
For each change also write a DEMONSTRATION: a self-contained Rust integration test file (to be dropped into the crate's `tests/` directory as `tests/seeded_{pid}_<k>.rs`, using only the crate's public API and its dev-dependencies such as libsodium-sys/sodiumoxide/hex) that FAILS with your change applied and PASSES on the unmodified tree. Confirm both facts by actually running it (`cargo test --offline --test seeded_{pid}_<k>`), with the change applied and with it reverted (`git stash` / `git checkout -- src`).
Deliverables, for k = {k1}, {k2}, in /var/tmp/seeded/{pid}_k/ (create the directories): `patch.diff` (output of `git diff -- src` for that change alone, applicable with `git apply` at the worktree's HEAD), `demo.rs` (the demonstration test file), `meta.json` with fields {{"property": "{pid}", "summary": "...one sentence what was changed...", "needs": "...what specific input/sequence/state is needed for the defect to manifest...", "files": [...], "ran": ["...commands you ran and their outcome in a few words..."], "full_suite_passes_with_change": true/false, "demo_fails_with_change": true/false, "demo_passes_without_change": true/false}}. Leave the worktree clean (no modifications, `git status` clean apart from untracked target/) when you finish. Final answer: a short list of the changes with one line each.

NOTE ON FEATURES: parts of the crate live behind cargo features. The nightly toolchain is installed: `cargo +nightly test --features nightly,serde --offline` and `cargo +nightly test --features nightly,serde,simd_backend --offline` both work offline and pass on the unmodified tree; `cargo test --features base64 --offline` and `cargo test --features serde --offline` (stable) too. If your demonstration needs such features, gate the demo file with `#![cfg(all(feature = "..."))]`, record them in meta.json as "demo_features": "nightly,serde" (comma separated) and ALSO confirm that the corresponding suite still passes with your change.

ADDITIONAL REQUIREMENTS FOR THIS ROUND: earlier rounds already produced the following seeded defects for this property; yours must be DIFFERENT in location and mechanism:
""" + '\n'.join(prev) + f"""
This round you are free in WHERE the defect sits (main functions, wrappers, helpers, trait impls, constants, type aliases, macros, feature-gated variants) — pick places and mechanisms that a reviewer and a verification tool focused on the main functions would most likely overlook, as long as the property above is genuinely broken and the demonstration shows it against libsodium or the property's own wording. You have about 40 minutes; deliver what you have confirmed by then. Name your deliverable directories /var/tmp/seeded/{pid}_{k1} and /var/tmp/seeded/{pid}_{k2} (k = {k1}, {k2}) and the demo test files tests/seeded_{pid}_{k1}.rs / _{k2}.rs.
"""
    open('/var/tmp/seeded/%s.prompt%s.txt' % (pid, rnd), 'w').write(txt)
    print(pid, wt, k1, k2, len(txt))
