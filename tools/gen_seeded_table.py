#!/usr/bin/env python3
"""gen_seeded_table.py — print the markdown table of DESIGN.md §I.9 from seeded/*/meta.json and seeded/eval_results.json."""
import json, os, glob
V = os.path.dirname(os.path.dirname(os.path.abspath(__file__)))
res = {}
for r in json.load(open(os.path.join(V, 'seeded', 'eval_results.json'))):
    res.setdefault(r['seeded'], []).append(r)


def cut(s, n):
    s = ' '.join(s.split()).replace('|', '/')
    return s if len(s) <= n else s[:n - 3] + '...'


import io, sys
_out = io.StringIO()
_real = sys.stdout
sys.stdout = _out
print('| id | prop | change | needs | quick check of that property |')
print('|----|------|--------|-------|------------------------------|')
tot = rep = inp = und = oth = 0
for d in sorted(glob.glob(os.path.join(V, 'seeded', '*'))):
    if not os.path.isdir(d):
        continue
    i = os.path.basename(d)
    m = json.load(open(os.path.join(d, 'meta.json')))
    rs = [r for r in res.get(i, []) if r['property'] == m['property']]
    tot += 1
    if not rs:
        out = 'not evaluated'
    else:
        r = rs[0]
        if r['rc'] == 1:
            rep += 1
            if r['with_input']:
                inp += 1
            out = 'reported (%d obligation%s, %s)' % (r['violations'], '' if r['violations'] == 1 else 's',
                                                     'failing input replayed' if r['with_input'] else 'no-failing-input-found')
        elif r['rc'] == 2:
            und += 1
            out = '**undecided** (exit 2)'
        else:
            others = [r2 for r2 in res.get(i, []) if r2['property'] != m['property'] and r2['rc'] == 1]
            if others:
                oth += 1
                out = 'not by %s; reported by %s (which declares the changed function%s)' % (
                    m['property'], ', '.join(r2['property'] for r2 in others), ', failing input replayed' if any(r2['with_input'] for r2 in others) else '')
            else:
                out = '**missed**'
    print('| %s | %s | %s | %s | %s |' % (i, m['property'], cut(m['summary'], 150), cut(m.get('needs', ''), 110), out))
print()
print('%d changes: %d reported by the check of the property they were written against (%d with a concrete failing input replayed on the real code), %d reported only by another property\'s check, %d undecided, %d missed.' % (tot, rep, inp, oth, und, tot - rep - und - oth))

sys.stdout = _real
text = _out.getvalue()
if '--update-design' in sys.argv:
    dp = os.path.join(V, 'DESIGN.md')
    d = open(dp).read()
    a, b = '<!-- SEEDED-TABLE-BEGIN -->', '<!-- SEEDED-TABLE-END -->'
    i, j = d.index(a) + len(a), d.index(b)
    d = d[:i] + '\n' + text + d[j:]
    open(dp, 'w').write(d)
    print('DESIGN.md table updated:', text.strip().split('\n')[-1])
else:
    print(text, end='')
