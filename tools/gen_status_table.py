#!/usr/bin/env python3
"""gen_status_table.py — numbers for DESIGN.md §I.1 / §I.5 from the evidence files (units proved / assumed per property,
Kani units, extra configurations) and the whole-crate totals from a fresh annotation."""
import json, os, sys, shutil
sys.path.insert(0, os.path.dirname(os.path.abspath(__file__)))
import engine
V = engine.VERIF
for f in sorted(os.listdir(os.path.join(V, 'evidence'))):
    if not f.endswith('.json'):
        continue
    e = json.load(open(os.path.join(V, 'evidence', f)))
    c = e['coverage']
    us = c['units']
    proved = sum(1 for u in us if u['verdict'] == 'discharged')
    assumed = sum(1 for u in us if u['verdict'] == 'assumed')
    other = [u['fn'][-40:] for u in us if u['verdict'] not in ('discharged', 'assumed')]
    kan = [k['name'] for k in c.get('kani_units', [])]
    standby = [k['name'] for k in c.get('kani_standby', [])]
    ex = ['%s: %s/%s units, exit %s' % (x['configuration'], (x['coverage'] or {}).get('functions_discharged'), (x['coverage'] or {}).get('functions_under_contract'), x['exit'])
          for x in c.get('extra_configurations', [])]
    print('%s %s | %d/%d | obligations %s/%s | kani %s | standby %d | %s | %ss %s' % (
        e['property_id'], c['status'], proved, assumed, c['discharged'], c['obligations'], kan, len(standby), '; '.join(ex), e['wall_s'], other or ''))
if '--totals' in sys.argv:
    cfgs = {k: v for k, v in json.load(open(os.path.join(V, 'configs.json'))).items() if not k.startswith('_')}
    owned = set(o for c in cfgs.values() for o in c.get('own', []))
    all_vc = sorted(n[:-3] for n in os.listdir(os.path.join(V, 'contracts')) if n.endswith('.vc'))
    scratch, index = engine.snapshot_and_annotate(only=[n for n in all_vc if n not in owned])
    shutil.rmtree(scratch, ignore_errors=True)
    us = index['units']
    print('default configuration: %d units, %d assumed, %d files' % (len(us), sum(1 for u in us if u['assumed']), len(set(u['file'] for u in us))))
    for name, c in cfgs.items():
        scratch, index = engine.snapshot_and_annotate(only=[n for n in c['base'] + c['own'] if n in all_vc], specs=c['specs'])
        shutil.rmtree(scratch, ignore_errors=True)
        own_files = set()
        for o in c['own']:
            for l in open(os.path.join(V, 'contracts', o + '.vc')):
                if l.startswith('#@ file '):
                    own_files.add(l.split()[2])
        mine = [u for u in index['units'] if u['sidecar'].split('/')[-1][:-3] in c['own']] if index['units'] and 'sidecar' in index['units'][0] else []
        print('configuration %s: %d units in total (base + own), own sidecars %s' % (name, len(index['units']), c['own']))
