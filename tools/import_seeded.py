#!/usr/bin/env python3
"""import_seeded.py <id>... : copy confirmed seeded changes (tools/confirm_seeded.sh) from /var/tmp/seeded/<id> into /verif/seeded/<id>"""
import json, os, shutil, subprocess, sys
head = subprocess.check_output(['git', '-C', '/repo', 'rev-parse', '--short', 'HEAD'], text=True).strip()
for i in sys.argv[1:]:
    d = '/var/tmp/seeded/' + i
    c = dict(l.strip().split('=', 1) for l in open(d + '/confirm.txt') if '=' in l)
    ok = c.get('suite_with_change_exit') == '0' and c.get('demo_with_change_exit') not in (None, '0') and c.get('demo_without_change_exit') == '0'
    if 'suite_nightly_with_change_exit' in c:
        ok = ok and c['suite_nightly_with_change_exit'] == '0'
    if not ok:
        print('NOT CONFIRMED', i, c)
        continue
    m = json.load(open(d + '/meta.json'))
    m['confirmed_by_framework_author'] = {
        'worktree': 'scratch git worktree of /repo at %s (removed afterwards)' % head,
        'commands': ['git apply patch.diff', 'cargo test --workspace --no-fail-fast --offline -> exit %s' % c['suite_with_change_exit']] +
                    (['nightly suite (features nightly,serde[,simd_backend]) -> exit %s' % c['suite_nightly_with_change_exit']] if 'suite_nightly_with_change_exit' in c else []) +
                    ['%s (with change) -> exit %s' % (c['demo_cmd'], c['demo_with_change_exit']),
                     'git checkout -- src; %s (without change) -> exit %s' % (c['demo_cmd'], c['demo_without_change_exit'])],
        'suite_passes_with_change': True, 'demo_fails_with_change': True, 'demo_passes_without_change': True}
    o = os.path.join(os.path.dirname(os.path.dirname(os.path.abspath(__file__))), 'seeded', i)
    os.makedirs(o, exist_ok=True)
    shutil.copy(d + '/patch.diff', o)
    shutil.copy(d + '/demo.rs', o)
    json.dump(m, open(o + '/meta.json', 'w'), indent=1)
    print('imported', i)
