#!/usr/bin/env python3
"""kani_replay.py <harness> — re-run one Kani unit of kani/units.json on /repo's CURRENT tree with concrete playback and execute
the counterexample natively. Exit 1 if the contract is still violated (prints the values), 0 if Kani proves it, 2 otherwise."""
import json, os, sys
sys.path.insert(0, os.path.dirname(os.path.abspath(__file__)))
import engine
name = sys.argv[1]
us = [u for u in engine.kani_units() if u['name'] == name]
if not us:
    raise SystemExit('unknown Kani unit ' + name)
r = engine.run_kani(us[0], playback=True)
print(json.dumps({k: r.get(k) for k in ('name', 'verdict', 'failed_checks', 'counterexample', 'backs', 'what')}, indent=1))
sys.exit({'failed': 1, 'discharged': 0}.get(r['verdict'], 2))
