"""Small Rust tokenizer and item/block locator (brace, string, comment, lifetime aware).

Used by annotate.py to find the *real* functions of /repo by structural path, their bodies,
loops, blocks and statements, so that contracts can be spliced mechanically.
No Rust parser is available to python offline; this scanner only needs to be right about
nesting, item boundaries and statement boundaries.
"""
import re

IDENT_RE = re.compile(r'[A-Za-z_][A-Za-z0-9_]*')
NUM_RE = re.compile(r'[0-9][0-9A-Za-z_]*(\.[0-9][0-9A-Za-z_]*)?')


class Tok:
    __slots__ = ('k', 's', 'a', 'b')

    def __init__(self, k, s, a, b):
        self.k = k  # 'id' 'num' 'str' 'chr' 'life' 'p' 'com'
        self.s = s
        self.a = a
        self.b = b

    def __repr__(self):
        return 'Tok(%s,%r,%d)' % (self.k, self.s, self.a)


def tokenize(src):
    toks = []
    i = 0
    n = len(src)
    while i < n:
        c = src[i]
        if c in ' \t\r\n':
            i += 1
            continue
        if src.startswith('//', i):
            j = src.find('\n', i)
            if j < 0:
                j = n
            toks.append(Tok('com', src[i:j], i, j))
            i = j
            continue
        if src.startswith('/*', i):
            depth = 1
            j = i + 2
            while j < n and depth:
                if src.startswith('/*', j):
                    depth += 1
                    j += 2
                elif src.startswith('*/', j):
                    depth -= 1
                    j += 2
                else:
                    j += 1
            toks.append(Tok('com', src[i:j], i, j))
            i = j
            continue
        # raw strings / byte strings
        m = re.match(r'(br|r)(#*)"', src[i:i + 40])
        if m and (i == 0 or not (src[i - 1].isalnum() or src[i - 1] == '_')):
            hashes = m.group(2)
            close = '"' + hashes
            j = src.find(close, i + m.end())
            j = n if j < 0 else j + len(close)
            toks.append(Tok('str', src[i:j], i, j))
            i = j
            continue
        if c == '"' or (c == 'b' and i + 1 < n and src[i + 1] == '"'):
            j = i + (2 if c == 'b' else 1)
            while j < n and src[j] != '"':
                if src[j] == '\\':
                    j += 1
                j += 1
            j += 1
            toks.append(Tok('str', src[i:j], i, j))
            i = j
            continue
        if c == "'" or (c == 'b' and i + 1 < n and src[i + 1] == "'"):
            st = i + (1 if c == 'b' else 0)
            # char literal or lifetime
            if st + 1 < n and src[st + 1] == '\\':
                j = st + 2
                while j < n and src[j] != "'":
                    j += 1
                j += 1
                toks.append(Tok('chr', src[i:j], i, j))
                i = j
                continue
            if st + 2 < n and src[st + 2] == "'":
                toks.append(Tok('chr', src[i:st + 3], i, st + 3))
                i = st + 3
                continue
            m = IDENT_RE.match(src, st + 1)
            if m and c == "'":
                toks.append(Tok('life', src[i:m.end()], i, m.end()))
                i = m.end()
                continue
            # multi-byte char literal like 'é'
            j = src.find("'", st + 1)
            toks.append(Tok('chr', src[i:j + 1], i, j + 1))
            i = j + 1
            continue
        m = IDENT_RE.match(src, i)
        if m:
            toks.append(Tok('id', m.group(0), i, m.end()))
            i = m.end()
            continue
        m = NUM_RE.match(src, i)
        if m:
            # avoid swallowing '..' of ranges: NUM_RE requires digit after '.'
            toks.append(Tok('num', m.group(0), i, m.end()))
            i = m.end()
            continue
        # punctuation: keep '->' '=>' '::' as units, others single char
        for p in ('->', '=>', '::'):
            if src.startswith(p, i):
                toks.append(Tok('p', p, i, i + 2))
                i += 2
                break
        else:
            toks.append(Tok('p', c, i, i + 1))
            i += 1
    return toks


OPEN = {'(': ')', '[': ']', '{': '}'}
CLOSE = {')', ']', '}'}


def match_close(toks, i):
    """toks[i] is an opening bracket; return index of its matching close."""
    depth = 0
    j = i
    while j < len(toks):
        t = toks[j]
        if t.k == 'p':
            if t.s in OPEN:
                depth += 1
            elif t.s in CLOSE:
                depth -= 1
                if depth == 0:
                    return j
        j += 1
    raise ValueError('unbalanced bracket at %d' % toks[i].a)


ITEM_KW = ('fn', 'struct', 'enum', 'union', 'trait', 'impl', 'mod', 'const', 'static', 'type', 'use',
           'macro_rules', 'extern')


class Item:
    def __init__(self):
        self.kind = None
        self.name = None
        self.header = None  # normalised header for impl
        self.start = None  # byte offset of first token (attributes / doc comments included)
        self.kw = None  # byte offset of the first non-attribute, non-comment token
        self.end = None  # byte offset just past the item
        self.body_open = None  # token index of '{' of body (fn/impl/mod/trait)
        self.body_close = None
        self.children = []
        self.parent = None
        self.tok_lo = None
        self.tok_hi = None  # inclusive
        self.arrow = None  # token index of '->' in fn signature, if any
        self.params_close = None

    def key(self):
        if self.kind == 'impl':
            return 'impl ' + self.header
        return '%s %s' % (self.kind, self.name)

    def path(self):
        parts = []
        it = self
        while it is not None and it.kind is not None:
            parts.append(it.key())
            it = it.parent
        return ' :: '.join(reversed(parts))


def norm_header(src, toks, lo, hi):
    return ' '.join(t.s for t in toks[lo:hi] if t.k != 'com')


def parse_items(src, toks, lo, hi, parent):
    """Parse the items in toks[lo:hi] (contents of a file / mod / impl / trait)."""
    items = []
    i = lo
    while i < hi:
        it = Item()
        it.parent = parent
        it.tok_lo = i
        it.start = toks[i].a
        j = i
        # an inner attribute `#![..]` is an item of its own (keeps it outside any wrapper)
        jj = i
        while jj < hi and toks[jj].k == 'com':
            jj += 1
        if jj + 2 < hi and toks[jj].s == '#' and toks[jj + 1].s == '!' and toks[jj + 2].s == '[':
            c = match_close(toks, jj + 2)
            it.kind = 'innerattr'
            it.kw = toks[jj].a
            it.tok_hi = c
            it.end = toks[c].b
            items.append(it)
            i = c + 1
            continue
        # skip comments and attributes
        while j < hi:
            t = toks[j]
            if t.k == 'com':
                j += 1
                continue
            if t.k == 'p' and t.s == '#':
                k = j + 1
                if k < hi and toks[k].k == 'p' and toks[k].s == '!':
                    k += 1
                if k < hi and toks[k].s == '[':
                    j = match_close(toks, k) + 1
                    continue
            break
        if j >= hi:
            break  # trailing comments only
        it.kw = toks[j].a
        # visibility and qualifiers
        k = j
        if toks[k].k == 'id' and toks[k].s == 'pub':
            k += 1
            if k < hi and toks[k].s == '(':
                k = match_close(toks, k) + 1
        kind = None
        kk = k
        while kk < hi:
            t = toks[kk]
            if t.k == 'id' and t.s in ('unsafe', 'async', 'default'):
                kk += 1
                continue
            if t.k == 'id' and t.s == 'const' and kk + 1 < hi and toks[kk + 1].k == 'id' and toks[kk + 1].s in (
                    'fn', 'unsafe', 'async', 'extern'):
                kk += 1
                continue
            if t.k == 'id' and t.s == 'extern' and kk + 1 < hi and toks[kk + 1].k == 'str':
                # extern "C" fn  /  extern "C" { }
                if kk + 2 < hi and toks[kk + 2].s == '{':
                    kind = 'externblock'
                    break
                kk += 2
                continue
            break
        if kind is None:
            t = toks[kk]
            if t.k == 'id' and t.s in ITEM_KW:
                kind = t.s
            elif t.k == 'id' and kk + 1 < hi and toks[kk + 1].s == '!':
                kind = 'macro'
            elif t.k == 'id' and toks[kk + 1].s == '::':
                kind = 'macro'  # path::mac! { }
            else:
                kind = 'unknown'
        it.kind = kind
        # find end
        e = kk
        first_brace = None
        depth = 0
        if kind in ('const', 'static', 'type', 'use', 'extern', 'unknown'):
            while e < hi:
                t = toks[e]
                if t.k == 'p' and t.s in OPEN:
                    e = match_close(toks, e) + 1
                    continue
                if t.k == 'p' and t.s == ';':
                    break
                e += 1
            end_tok = e
        elif kind == 'macro' or kind == 'macro_rules':
            while e < hi and not (toks[e].k == 'p' and toks[e].s in OPEN):
                e += 1
            opener = toks[e].s
            c = match_close(toks, e)
            end_tok = c
            if opener != '{' and c + 1 < hi and toks[c + 1].s == ';':
                end_tok = c + 1
            if kind == 'macro_rules':
                it.name = toks[kk + 2].s if toks[kk + 1].s == '!' else None
            else:
                it.name = toks[kk].s
        else:
            # fn struct enum union trait impl mod externblock: ends at ';' at depth 0 or at the close of first '{'
            while e < hi:
                t = toks[e]
                if t.k == 'p' and t.s in ('(', '['):
                    e = match_close(toks, e) + 1
                    continue
                if t.k == 'p' and t.s == '{':
                    first_brace = e
                    break
                if t.k == 'p' and t.s == ';':
                    break
                e += 1
            if first_brace is not None:
                c = match_close(toks, first_brace)
                end_tok = c
                it.body_open = first_brace
                it.body_close = c
            else:
                end_tok = e
        it.tok_hi = end_tok
        it.end = toks[end_tok].b
        if kind in ('fn', 'struct', 'enum', 'union', 'trait', 'mod', 'const', 'static', 'type'):
            nm = kk + 1
            if nm < hi:
                it.name = toks[nm].s
        if kind == 'fn':
            # params close and arrow
            p = kk + 2
            # skip generics
            while p < hi and toks[p].s != '(':
                p += 1
            pc = match_close(toks, p)
            it.params_open = p
            it.params_close = pc
            q = pc + 1
            stop = it.body_open if it.body_open is not None else end_tok
            while q < stop:
                if toks[q].k == 'p' and toks[q].s == '->':
                    it.arrow = q
                    break
                if toks[q].k == 'id' and toks[q].s == 'where':
                    break
                q += 1
            it.fn_kw = kk
        if kind == 'impl':
            it.header = norm_header(src, toks, kk + 1, first_brace)
        if kind in ('impl', 'mod', 'trait') and it.body_open is not None:
            it.children = parse_items(src, toks, it.body_open + 1, it.body_close, it)
        if kind == 'fn' and it.body_open is not None:
            # items nested in a function body (e.g. a serde Visitor struct + impl inside `fn deserialize`): keep only
            # real items, statements parse as 'unknown' / 'macro' and are dropped
            try:
                nested = parse_items(src, toks, it.body_open + 1, it.body_close, it)
                it.children = [c for c in nested if c.kind in ('impl', 'struct', 'enum', 'fn', 'trait', 'const', 'type')]
            except Exception:
                it.children = []
        items.append(it)
        i = end_tok + 1
    return items


def walk(items):
    for it in items:
        yield it
        for c in walk(it.children):
            yield c


def find_item(items, kind, key):
    """key: ' :: '-separated path, e.g. 'impl Poly1305 :: update' or 'pad16' or 'mod a :: f'."""
    want = [normalize_key(p) for p in key.split(' :: ')]
    res = []
    for it in walk(items):
        if it.kind != kind:
            continue
        chain = []
        x = it.parent
        while x is not None and x.kind is not None:
            chain.append(normalize_key(x.key()))
            x = x.parent
        chain.reverse()
        name = it.header if kind == 'impl' else it.name
        if normalize_key(name or '') != want[-1]:
            continue
        if chain == want[:-1]:
            res.append(it)
    return res


def normalize_key(s):
    return re.sub(r'\s+', '', s)


# ---------------------------------------------------------------------------------------------
# blocks, loops, statements inside a function body

class Block:
    def __init__(self, open_i, close_i):
        self.open = open_i
        self.close = close_i


def body_blocks(toks, body_open, body_close):
    """All '{' blocks in preorder; index 0 is the body itself."""
    res = []
    i = body_open
    while i <= body_close:
        t = toks[i]
        if t.k == 'p' and t.s == '{':
            res.append(Block(i, match_close(toks, i)))
        i += 1
    return res


def body_loops(toks, body_open, body_close):
    """Loops in preorder: list of (kw_index, body_open_index, body_close_index, kind)."""
    res = []
    i = body_open + 1
    while i < body_close:
        t = toks[i]
        if t.k == 'id' and t.s in ('for', 'while', 'loop'):
            # exclude `for<'a>` HRTB
            if t.s == 'for' and toks[i + 1].s == '<':
                i += 1
                continue
            j = i + 1
            while j < body_close:
                u = toks[j]
                if u.k == 'p' and u.s in ('(', '['):
                    j = match_close(toks, j) + 1
                    continue
                if u.k == 'p' and u.s == '{':
                    break
                j += 1
            res.append((i, j, match_close(toks, j), t.s))
        i += 1
    return res


BLOCKLIKE = ('if', 'while', 'for', 'loop', 'match', 'unsafe')


def statements(toks, open_i, close_i):
    """Split the block toks[open_i]..toks[close_i] into statements.
    Returns list of (first_tok, last_tok, terminated) with comments skipped at boundaries."""
    res = []
    i = open_i + 1
    while i < close_i:
        while i < close_i and toks[i].k == 'com':
            i += 1
        if i >= close_i:
            break
        first = i
        f = toks[first]
        blocklike = (f.k == 'id' and f.s in BLOCKLIKE) or (f.k == 'p' and f.s == '{') or f.k == 'life'
        j = i
        term = False
        while j < close_i:
            t = toks[j]
            if t.k == 'p' and t.s in OPEN:
                c = match_close(toks, j)
                if t.s == '{' and blocklike:
                    # block-like expression statement ends here unless followed by else / method chain
                    nxt = c + 1
                    while nxt < close_i and toks[nxt].k == 'com':
                        nxt += 1
                    if nxt >= close_i:
                        j = c
                        term = True  # block-like last statement (may be the tail value)
                        break
                    nt = toks[nxt]
                    if nt.k == 'id' and nt.s == 'else':
                        j = nxt + 1
                        continue
                    if nt.k == 'p' and nt.s in ('.', '?'):
                        j = nxt
                        blocklike = False
                        continue
                    if nt.k == 'p' and nt.s == ';':
                        j = nxt
                        term = True
                        break
                    j = c
                    term = True
                    break
                j = c + 1
                continue
            if t.k == 'p' and t.s == ';':
                term = True
                break
            j += 1
        if j >= close_i:
            j = close_i - 1
            while toks[j].k == 'com':
                j -= 1
        res.append((first, j, term))
        i = j + 1
    return res
