#!/bin/bash
cd /verif
export VERIF_SCRATCH=${VERIF_SCRATCH:-/var/tmp}
for P in C01 C02 C03 C04 C05 C06 C07 C08 C09 C10 C11 C12 C13 C14 C16 C17 C18 C19; do
  s=$(date +%s); out=$(./check $P --tier quick 2>/dev/null | cut -c1-160 | tr '\n' '|'); rc=$?; e=$(date +%s)
  echo "$P $((e-s))s: $out"
done
