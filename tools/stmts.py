#!/usr/bin/env python3
"""stmts.py <src file relative to repo, e.g. src/utils.rs> '<fn path>' [--patch=diff] — list blocks, loops and numbered
statements of a function AFTER the sidecar's rewrites, i.e. exactly what `#@ at ...` / `#@ loop K` anchors refer to."""
import os, re, subprocess, sys, tempfile, shutil
sys.path.insert(0, os.path.dirname(os.path.abspath(__file__)))
import annotate, rstok, engine
rel, path = sys.argv[1], sys.argv[2]
patches = [a.split('=')[1] for a in sys.argv[3:] if a.startswith('--patch=')]
src_path = os.path.join(engine.REPO, rel)
tmp = None
if patches:
    tmp = tempfile.mkdtemp(dir=os.environ.get('VERIF_SCRATCH', '/var/tmp'))
    shutil.copytree(os.path.join(engine.REPO, 'src'), os.path.join(tmp, 'src'))
    for pf in patches:
        subprocess.run(['patch', '-s', '-p1', '-d', tmp, '-i', os.path.abspath(pf)], check=True)
    src_path = os.path.join(tmp, rel)
src = open(src_path).read()
if tmp: shutil.rmtree(tmp)
contracts = annotate.load_contracts(os.path.join(engine.VERIF, 'contracts'))
fc = contracts.get(rel, {'units': [], 'filerewrites': []})
for rule, rx, tmpl, _ in fc['filerewrites']:
    src, _n = annotate.apply_regex(src, rx, tmpl)
toks = rstok.tokenize(src); items = rstok.parse_items(src, toks, 0, len(toks), None)
it = annotate.find_one(items, 'fn', path, 'stmts')
text = src[it.start:it.end]
for u in fc['units']:
    if rstok.normalize_key(u.path) == rstok.normalize_key(path):
        for rule, rx, tmpl, _ in u.rewrites:
            text, n = annotate.apply_regex(text, rx, tmpl)
            print('# rewrite %s x%d' % (rule, n))
src = src[:it.start] + text + src[it.end:]
toks = rstok.tokenize(src); items = rstok.parse_items(src, toks, 0, len(toks), None)
it = annotate.find_one(items, 'fn', path, 'stmts')
blocks = rstok.body_blocks(toks, it.body_open, it.body_close)
loops = rstok.body_loops(toks, it.body_open, it.body_close)
loop_open = {l[1]: i + 1 for i, l in enumerate(loops)}
for bi, b in enumerate(blocks):
    tag = 'block %d' % bi + (' (= body)' if bi == 0 else '') + (' (= loop %d)' % loop_open[b.open] if b.open in loop_open else '')
    st = rstok.statements(toks, b.open, b.close)
    if not st: continue
    print('== %s' % tag)
    for n, (a, z, term) in enumerate(st, 1):
        t = ' '.join(src[toks[a].a:toks[z].b].split())
        print('  %2d%s %s' % (n, ' ' if term else '*', t[:110]))
