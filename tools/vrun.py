#!/usr/bin/env python3
"""vrun.py <scratch> [modules..] — rerun verus inside a kept scratch directory (development aid)."""
import sys, os, json
sys.path.insert(0, os.path.dirname(os.path.abspath(__file__)))
import engine
res = engine.run_verus(sys.argv[1], modules=sys.argv[2:] or None, rlimit=20)
print('rc', res['rc'], json.dumps((res['json'] or {}).get('verification-results')))
for d in res['diags']:
    if d.get('level') == 'error' and not d['message'].startswith('aborting'):
        print(d['rendered'])
if not res['diags'] and res['rc']: print(res['raw_err'][-2000:])
